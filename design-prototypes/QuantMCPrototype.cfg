CONSTANTS HE = 4  HM = 6
SPECIFICATION Spec
INVARIANT NearestOK
INVARIANT Idempotent
INVARIANT Monotone
INVARIANT FixedPoint
CHECK_DEADLOCK FALSE
