---- MODULE USAlgoPrototype ----
EXTENDS Integers, Sequences, FiniteSets, TLC, Json, IOUtils, SequencesExt

Input == JsonDeserialize(IOEnv.GRAPH_FILE)

VARIABLES nodes, order, pc, cur, deps, rmeta, hrs
vars == <<nodes, order, pc, cur, deps, rmeta, hrs>>

N(id) == [k |-> "n", n |-> id]
C(s) == [k |-> "c", c |-> s]

TorchMap == [x \in {"F.linear","F.gelu","F.silu","F.softmax","torch.matmul","F.dropout","F.layer_norm",
                    "F.embedding","torch.conv1d","F.sdpa","F.cross_entropy","F.mse_loss","torch.add"} |->
  CASE x = "F.linear" -> "U.linear" [] x = "F.gelu" -> "U.gelu" [] x = "F.silu" -> "U.silu"
    [] x = "F.softmax" -> "U.softmax" [] x = "torch.matmul" -> "U.matmul" [] x = "F.dropout" -> "U.dropout"
    [] x = "F.layer_norm" -> "U.layer_norm" [] x = "F.embedding" -> "U.embedding" [] x = "torch.conv1d" -> "U.conv1d"
    [] x = "F.sdpa" -> "U.sdpa" [] x = "F.cross_entropy" -> "U.cross_entropy" [] x = "F.mse_loss" -> "U.mse_loss"
    [] x = "torch.add" -> "U.add"]
AddTargets == {"operator.add", "operator.iadd"}
SelfAttnTargets == {"F.sdpa", "U.sdpa", "F.softmax", "U.softmax"}
HasConstraintParam == {"U.gelu","U.silu","U.softmax","U.matmul","U.linear","U.linear_readout","U.conv1d","U.add"}

ArgNodes(a) == IF a.k = "n" THEN {a.n}
               ELSE IF a.k = "l" THEN {a.l[i].n : i \in {j \in DOMAIN a.l : a.l[j].k = "n"}}
               ELSE {}
InputsIn(nd, id) == UNION ({ArgNodes(nd[id].args[i]) : i \in DOMAIN nd[id].args}
                        \cup {ArgNodes(nd[id].kw[i].val) : i \in DOMAIN nd[id].kw})
Inputs(id) == InputsIn(nodes, id)
Live == {order[i] : i \in DOMAIN order}
Users(id) == {u \in Live : id \in Inputs(u)}
Pos(id) == CHOOSE i \in DOMAIN order : order[i] = id
NextOf(id) == IF Pos(id) = Len(order) THEN 0 ELSE order[Pos(id) + 1]

SubstArg(a, old, new) ==
  IF a.k = "n" THEN (IF a.n = old THEN N(new) ELSE a)
  ELSE IF a.k = "l" THEN [a EXCEPT !.l = [i \in DOMAIN a.l |-> IF a.l[i].k = "n" /\ a.l[i].n = old THEN N(new) ELSE a.l[i]]]
  ELSE a
SubstNode(r, old, new) ==
  [r EXCEPT !.args = [i \in DOMAIN r.args |-> SubstArg(r.args[i], old, new)],
            !.kw = [i \in DOMAIN r.kw |-> [r.kw[i] EXCEPT !.val = SubstArg(r.kw[i].val, old, new)]]]

\* replace_node_with_function: new node at the position of `src`, all uses redirected, src erased (args nulled)
ReplaceNode(nd, ord, src, rec) ==
  LET new == Len(nd) + 1
      nd1 == [i \in DOMAIN nd |-> IF i = src THEN [nd[i] EXCEPT !.args = <<>>, !.kw = <<>>]
                                   ELSE SubstNode(nd[i], src, new)]
  IN [nodes |-> Append(nd1, rec), order |-> [i \in DOMAIN ord |-> IF ord[i] = src THEN new ELSE ord[i]], new |-> new]

InsertAfter(ord, after, id) == LET p == CHOOSE i \in DOMAIN ord : ord[i] = after
                               IN SubSeq(ord, 1, p) \o <<id>> \o SubSeq(ord, p + 1, Len(ord))

RECURSIVE AncIn(_, _)
AncIn(nd, id) == LET ins == InputsIn(nd, id) IN ins \cup UNION {AncIn(nd, i) : i \in ins}
OutputId == CHOOSE id \in Live : nodes[id].op = "output"
AllDeps == LET reach == AncIn(nodes, OutputId) \cup {OutputId}
           IN [id \in reach |-> AncIn(nodes, id)]
DepsOf(id) == IF id \in DOMAIN deps THEN deps[id] ELSE {}

Init == /\ nodes = Input.nodes /\ order = Input.order
        /\ pc = "P1" /\ cur = Input.order[1]
        /\ deps = <<>> /\ rmeta = <<>> /\ hrs = {}

P1 == /\ pc = "P1"
      /\ IF cur = 0 THEN /\ pc' = "P2" /\ UNCHANGED <<nodes, order, cur>>
         ELSE LET n == nodes[cur] IN
              IF n.op = "call_function" /\ n.tgt \in DOMAIN TorchMap
              THEN LET r == ReplaceNode(nodes, order, cur, [n EXCEPT !.tgt = TorchMap[n.tgt]])
                   IN nodes' = r.nodes /\ order' = r.order /\ cur' = r.new /\ pc' = pc
              ELSE cur' = NextOf(cur) /\ UNCHANGED <<nodes, order, pc>>
      /\ UNCHANGED <<deps, rmeta, hrs>>

P2 == /\ pc = "P2" /\ deps' = AllDeps /\ pc' = "P3" /\ cur' = order[1]
      /\ UNCHANGED <<nodes, order, rmeta, hrs>>

\* _is_self_attention: targets on the residual branch, walking inputs, not expanding the skip node
RECURSIVE BranchTgts(_, _, _)
BranchTgts(skip, frontier, acc) ==
  IF frontier = {} THEN acc
  ELSE LET p == CHOOSE x \in frontier : TRUE IN
       IF p = skip THEN BranchTgts(skip, frontier \ {p}, acc)
       ELSE BranchTgts(skip, (frontier \ {p}) \cup Inputs(p), acc \cup {nodes[p].tgt})
IsSA(skip, res) == BranchTgts(skip, Inputs(res), {nodes[res].tgt}) \cap SelfAttnTargets # {}

P3 == /\ pc = "P3"
      /\ IF cur = 0 THEN /\ pc' = "P4" /\ cur' = order[1] /\ UNCHANGED <<nodes, order, rmeta>>
         ELSE LET n == nodes[cur] IN
              IF n.op = "call_function" /\ n.tgt \in AddTargets
              THEN LET isres == /\ Len(n.args) = 2 /\ n.args[1].k = "n" /\ n.args[2].k = "n"
                                /\ (n.args[1].n \in DepsOf(n.args[2].n) \/ n.args[2].n \in DepsOf(n.args[1].n))
                   IN IF isres
                      THEN LET l == n.args[1].n  r == n.args[2].n
                               linr == l \in DepsOf(r)
                               skip == IF linr THEN l ELSE r
                               res == IF linr THEN r ELSE l
                           IN /\ rmeta' = (cur :> [idx |-> IF linr THEN 1 ELSE 0, sa |-> IsSA(skip, res)]) @@ rmeta
                              /\ cur' = NextOf(cur) /\ UNCHANGED <<nodes, order, pc>>
                      ELSE LET r == ReplaceNode(nodes, order, cur,
                                      [n EXCEPT !.tgt = "U.add", !.args = Append(n.args, C("None"))])
                           IN nodes' = r.nodes /\ order' = r.order /\ cur' = r.new /\ UNCHANGED <<pc, rmeta>>
              ELSE cur' = NextOf(cur) /\ UNCHANGED <<nodes, order, pc, rmeta>>
      /\ UNCHANGED <<deps, hrs>>

P4 == /\ pc = "P4"
      /\ IF cur = 0 THEN /\ pc' = "P5" /\ UNCHANGED <<nodes, order, cur>>
         ELSE IF cur \in DOMAIN rmeta
         THEN LET m == rmeta[cur]  n == nodes[cur]
                  res == n.args[m.idx + 1]  skipA == n.args[(1 - m.idx) + 1]  skip == skipA.n
                  tau == IF m.sa THEN "0.01" ELSE "0.5"
                  olds == Users(skip) \ {cur}
                  k == Len(nodes)
                  split == k + 1   g0 == k + 2   g1 == k + 3   radd == k + 4
                  nd1 == [i \in DOMAIN nodes |-> IF i \in olds THEN SubstNode(nodes[i], skip, g0) ELSE nodes[i]]
                  nd2 == nd1 \o << [op |-> "call_function", tgt |-> "U.residual_split", args |-> <<N(skip), C(tau)>>, kw |-> <<>>],
                                   [op |-> "call_function", tgt |-> "getitem", args |-> <<N(split), C("0")>>, kw |-> <<>>],
                                   [op |-> "call_function", tgt |-> "getitem", args |-> <<N(split), C("1")>>, kw |-> <<>>] >>
                  \* residual arg read before re-pointing; if it was the skip itself it is not substituted
                  ord2 == InsertAfter(InsertAfter(InsertAfter(order, skip, split), split, g0), split, g1)
                  r == ReplaceNode(nd2, ord2, cur, [op |-> "call_function", tgt |-> "U.residual_add",
                                     args |-> <<res, N(g1), C(tau)>>, kw |-> <<>>])
              IN nodes' = r.nodes /\ order' = r.order /\ cur' = r.new /\ pc' = pc
         ELSE cur' = NextOf(cur) /\ UNCHANGED <<nodes, order, pc>>
      /\ UNCHANGED <<deps, rmeta, hrs>>

P5 == /\ pc = "P5"
      /\ LET d == AllDeps
             radds == {id \in Live : nodes[id].tgt = "U.residual_add"}
             marked == radds \cup UNION {(IF id \in DOMAIN d THEN d[id] ELSE {}) : id \in radds}
         IN /\ hrs' = marked /\ deps' = d
            /\ nodes' = [i \in DOMAIN nodes |->
                 IF i \in Live /\ i \notin marked /\ nodes[i].op = "call_function" /\ nodes[i].tgt \in HasConstraintParam
                 THEN [nodes[i] EXCEPT !.kw = SelectSeq(@, LAMBDA e : e.key # "constraint") \o <<[key |-> "constraint", val |-> C("None")]>>]
                 ELSE nodes[i]]
      /\ pc' = "Done" /\ UNCHANGED <<order, cur, rmeta>>

Done == /\ pc = "Done"
        /\ JsonSerialize(IOEnv.OUT_FILE, [order |-> order, nodes |-> nodes])
        /\ pc' = "End" /\ UNCHANGED <<nodes, order, cur, deps, rmeta, hrs>>

Next == P1 \/ P2 \/ P3 \/ P4 \/ P5 \/ Done
Spec == Init /\ [][Next]_vars
====
