---- MODULE USRefPrototype ----
EXTENDS Integers, Sequences, FiniteSets, TLC, Json, IOUtils, SequencesExt

CONSTANTS K, Legacy

VARIABLES nodes, order, pc, cur, deps, rmeta, hrs, gin
vars == <<nodes, order, pc, cur, deps, rmeta, hrs, gin>>

N(id) == [k |-> "n", n |-> id]
C(s) == [k |-> "c", c |-> s]

TorchMap == [x \in {"F.linear","F.gelu","F.silu","F.softmax","torch.matmul","F.dropout","F.layer_norm",
                    "F.embedding","torch.conv1d","F.sdpa","F.cross_entropy","F.mse_loss","torch.add"} |->
  CASE x = "F.linear" -> "U.linear" [] x = "F.gelu" -> "U.gelu" [] x = "F.silu" -> "U.silu"
    [] x = "F.softmax" -> "U.softmax" [] x = "torch.matmul" -> "U.matmul" [] x = "F.dropout" -> "U.dropout"
    [] x = "F.layer_norm" -> "U.layer_norm" [] x = "F.embedding" -> "U.embedding" [] x = "torch.conv1d" -> "U.conv1d"
    [] x = "F.sdpa" -> "U.sdpa" [] x = "F.cross_entropy" -> "U.cross_entropy" [] x = "F.mse_loss" -> "U.mse_loss"
    [] x = "torch.add" -> "U.add"]
AddTargets == {"operator.add", "operator.iadd"}
SelfAttnTargets == {"F.sdpa", "U.sdpa", "F.softmax", "U.softmax"}
HasConstraintParam == {"U.gelu","U.silu","U.softmax","U.matmul","U.linear","U.linear_readout","U.conv1d","U.add"}

ArgNodes(a) == IF a.k = "n" THEN {a.n}
               ELSE IF a.k = "l" THEN {a.l[i].n : i \in {j \in DOMAIN a.l : a.l[j].k = "n"}}
               ELSE {}
InputsIn(nd, id) == UNION ({ArgNodes(nd[id].args[i]) : i \in DOMAIN nd[id].args}
                        \cup {ArgNodes(nd[id].kw[i].val) : i \in DOMAIN nd[id].kw})
Inputs(id) == InputsIn(nodes, id)
Live == {order[i] : i \in DOMAIN order}
Users(id) == {u \in Live : id \in Inputs(u)}
Pos(id) == CHOOSE i \in DOMAIN order : order[i] = id
NextOf(id) == IF Pos(id) = Len(order) THEN 0 ELSE order[Pos(id) + 1]

SubstArg(a, old, new) ==
  IF a.k = "n" THEN (IF a.n = old THEN N(new) ELSE a)
  ELSE IF a.k = "l" THEN [a EXCEPT !.l = [i \in DOMAIN a.l |-> IF a.l[i].k = "n" /\ a.l[i].n = old THEN N(new) ELSE a.l[i]]]
  ELSE a
SubstNode(r, old, new) ==
  [r EXCEPT !.args = [i \in DOMAIN r.args |-> SubstArg(r.args[i], old, new)],
            !.kw = [i \in DOMAIN r.kw |-> [r.kw[i] EXCEPT !.val = SubstArg(r.kw[i].val, old, new)]]]

\* replace_node_with_function: new node at the position of `src`, all uses redirected, src erased (args nulled)
ReplaceNode(nd, ord, src, rec) ==
  LET new == Len(nd) + 1
      nd1 == [i \in DOMAIN nd |-> IF i = src THEN [nd[i] EXCEPT !.args = <<>>, !.kw = <<>>]
                                   ELSE SubstNode(nd[i], src, new)]
  IN [nodes |-> Append(nd1, rec), order |-> [i \in DOMAIN ord |-> IF ord[i] = src THEN new ELSE ord[i]], new |-> new]

InsertAfter(ord, after, id) == LET p == CHOOSE i \in DOMAIN ord : ord[i] = after
                               IN SubSeq(ord, 1, p) \o <<id>> \o SubSeq(ord, p + 1, Len(ord))

RECURSIVE AncIn(_, _)
AncIn(nd, id) == LET ins == InputsIn(nd, id) IN ins \cup UNION {AncIn(nd, i) : i \in ins}
OutputId == CHOOSE id \in Live : nodes[id].op = "output"
AllDeps == LET reach == AncIn(nodes, OutputId) \cup {OutputId}
           IN [id \in reach |-> AncIn(nodes, id)]
DepsOf(id) == IF id \in DOMAIN deps THEN deps[id] ELSE {}

PH(name) == [op |-> "placeholder", tgt |-> name, args |-> <<>>, kw |-> <<>>]
Init == /\ nodes = <<PH("x"), PH("w")>> /\ order = <<1, 2>>
        /\ pc = "Gen" /\ cur = 0
        /\ deps = <<>> /\ rmeta = <<>> /\ hrs = {} /\ gin = <<>>
Unary == {"F.gelu", "torch.tanh", "F.softmax"}
Gen == /\ pc = "Gen"
       /\ LET n == Len(nodes) IN
          IF n = K + 2
          THEN /\ nodes' = Append(nodes, [op |-> "output", tgt |-> "output", args |-> <<N(n)>>, kw |-> <<>>])
               /\ order' = Append(order, n + 1) /\ pc' = "P1" /\ cur' = 1
               /\ gin' = Append(nodes, [op |-> "output", tgt |-> "output", args |-> <<N(n)>>, kw |-> <<>>])
          ELSE /\ \/ \E t \in Unary, a \in 1 .. n :
                        nodes' = Append(nodes, [op |-> "call_function", tgt |-> t, args |-> <<N(a)>>, kw |-> <<>>])
                  \/ \E a \in 1 .. n, b \in 1 .. n :
                        nodes' = Append(nodes, [op |-> "call_function", tgt |-> "operator.add", args |-> <<N(a), N(b)>>, kw |-> <<>>])
               /\ order' = Append(order, n + 1) /\ UNCHANGED <<pc, cur, gin>>
       /\ UNCHANGED <<deps, rmeta, hrs>>

P1 == /\ pc = "P1"
      /\ IF cur = 0 THEN /\ pc' = "P2" /\ UNCHANGED <<nodes, order, cur>>
         ELSE LET n == nodes[cur] IN
              IF n.op = "call_function" /\ n.tgt \in DOMAIN TorchMap
              THEN LET r == ReplaceNode(nodes, order, cur, [n EXCEPT !.tgt = TorchMap[n.tgt]])
                   IN nodes' = r.nodes /\ order' = r.order /\ cur' = r.new /\ pc' = pc
              ELSE cur' = NextOf(cur) /\ UNCHANGED <<nodes, order, pc>>
      /\ UNCHANGED <<deps, rmeta, hrs, gin>>

P2 == /\ pc = "P2" /\ deps' = AllDeps /\ pc' = "P3" /\ cur' = order[1]
      /\ UNCHANGED <<nodes, order, rmeta, hrs, gin>>

\* _is_self_attention: targets on the residual branch, walking inputs, not expanding the skip node
RECURSIVE BranchTgts(_, _, _)
BranchTgts(skip, frontier, acc) ==
  IF frontier = {} THEN acc
  ELSE LET p == CHOOSE x \in frontier : TRUE IN
       IF p = skip THEN BranchTgts(skip, frontier \ {p}, acc)
       ELSE BranchTgts(skip, (frontier \ {p}) \cup Inputs(p), acc \cup {nodes[p].tgt})
IsSA(skip, res) == BranchTgts(skip, Inputs(res), {nodes[res].tgt}) \cap SelfAttnTargets # {}

PlainAdd(n) == IF "add_constraint_positional" \in Legacy
                 THEN [n EXCEPT !.tgt = "U.add", !.args = Append(n.args, C("None"))]
                 ELSE [n EXCEPT !.tgt = "U.add", !.kw = <<[key |-> "constraint", val |-> C("None")]>>]

P3 == /\ pc = "P3"
      /\ IF cur = 0 THEN /\ pc' = (IF "stale_deps" \in Legacy THEN "P4" ELSE "P3b") /\ cur' = order[1] /\ UNCHANGED <<nodes, order, rmeta>>
         ELSE LET n == nodes[cur] IN
              IF n.op = "call_function" /\ n.tgt \in AddTargets
              THEN LET isres == /\ Len(n.args) = 2 /\ n.args[1].k = "n" /\ n.args[2].k = "n"
                                /\ (n.args[1].n \in DepsOf(n.args[2].n) \/ n.args[2].n \in DepsOf(n.args[1].n))
                   IN IF isres
                      THEN LET l == n.args[1].n  r == n.args[2].n
                               linr == l \in DepsOf(r)
                               skip == IF linr THEN l ELSE r
                               res == IF linr THEN r ELSE l
                           IN /\ rmeta' = (cur :> [idx |-> IF linr THEN 1 ELSE 0, sa |-> IsSA(skip, res)]) @@ rmeta
                              /\ cur' = NextOf(cur) /\ UNCHANGED <<nodes, order, pc>>
                      ELSE IF "stale_deps" \in Legacy
                           THEN LET r == ReplaceNode(nodes, order, cur, PlainAdd(n))
                                IN nodes' = r.nodes /\ order' = r.order /\ cur' = r.new /\ UNCHANGED <<pc, rmeta>>
                           ELSE cur' = NextOf(cur) /\ UNCHANGED <<nodes, order, pc, rmeta>>
              ELSE cur' = NextOf(cur) /\ UNCHANGED <<nodes, order, pc, rmeta>>
      /\ UNCHANGED <<deps, hrs, gin>>

P3b == /\ pc = "P3b"
       /\ IF cur = 0 THEN /\ pc' = "P4" /\ cur' = order[1] /\ UNCHANGED <<nodes, order>>
          ELSE LET n == nodes[cur] IN
               IF n.op = "call_function" /\ n.tgt \in AddTargets /\ cur \notin DOMAIN rmeta
               THEN LET r == ReplaceNode(nodes, order, cur, PlainAdd(n))
                    IN nodes' = r.nodes /\ order' = r.order /\ cur' = r.new /\ pc' = pc
               ELSE cur' = NextOf(cur) /\ UNCHANGED <<nodes, order, pc>>
       /\ UNCHANGED <<deps, rmeta, hrs, gin>>

P4 == /\ pc = "P4"
      /\ IF cur = 0 THEN /\ pc' = "P5" /\ UNCHANGED <<nodes, order, cur>>
         ELSE IF cur \in DOMAIN rmeta
         THEN LET m == rmeta[cur]  n == nodes[cur]
                  res == n.args[m.idx + 1]  skipA == n.args[(1 - m.idx) + 1]  skip == skipA.n
                  tau == IF m.sa THEN "0.01" ELSE "0.5"
                  olds == Users(skip) \ {cur}
                  k == Len(nodes)
                  split == k + 1   g0 == k + 2   g1 == k + 3   radd == k + 4
                  nd1 == [i \in DOMAIN nodes |-> IF i \in olds THEN SubstNode(nodes[i], skip, g0) ELSE nodes[i]]
                  nd2 == nd1 \o << [op |-> "call_function", tgt |-> "U.residual_split", args |-> <<N(skip), C(tau)>>, kw |-> <<>>],
                                   [op |-> "call_function", tgt |-> "getitem", args |-> <<N(split), C("0")>>, kw |-> <<>>],
                                   [op |-> "call_function", tgt |-> "getitem", args |-> <<N(split), C("1")>>, kw |-> <<>>] >>
                  \* residual arg read before re-pointing; if it was the skip itself it is not substituted
                  ord2 == InsertAfter(InsertAfter(InsertAfter(order, skip, split), split, g0), split, g1)
                  r == ReplaceNode(nd2, ord2, cur, [op |-> "call_function", tgt |-> "U.residual_add",
                                     args |-> <<res, N(g1), C(tau)>>, kw |-> <<>>])
              IN nodes' = r.nodes /\ order' = r.order /\ cur' = r.new /\ pc' = pc
         ELSE cur' = NextOf(cur) /\ UNCHANGED <<nodes, order, pc>>
      /\ UNCHANGED <<deps, rmeta, hrs, gin>>

P5 == /\ pc = "P5"
      /\ LET d == AllDeps
             radds == {id \in Live : nodes[id].tgt = "U.residual_add"}
             marked == radds \cup UNION {(IF id \in DOMAIN d THEN d[id] ELSE {}) : id \in radds}
         IN /\ hrs' = marked /\ deps' = d
            /\ nodes' = [i \in DOMAIN nodes |->
                 IF i \in Live /\ i \notin marked /\ nodes[i].op = "call_function" /\ nodes[i].tgt \in HasConstraintParam
                 THEN [nodes[i] EXCEPT !.kw = SelectSeq(@, LAMBDA e : e.key # "constraint") \o <<[key |-> "constraint", val |-> C("None")]>>]
                 ELSE nodes[i]]
      /\ pc' = "Done" /\ UNCHANGED <<order, cur, rmeta, gin>>

Next == Gen \/ P1 \/ P2 \/ P3 \/ P3b \/ P4 \/ P5

\* ------------------------------------------------------------------ recipe (declarative, on gin)
G0In(id) == InputsIn(gin, id)
RECURSIVE Anc0(_)
Anc0(id) == LET ins == G0In(id) IN ins \cup UNION {Anc0(i) : i \in ins}
IsAdd0(id) == gin[id].op = "call_function" /\ gin[id].tgt \in AddTargets
IsRes0(id) == /\ IsAdd0(id) /\ Len(gin[id].args) = 2 /\ gin[id].args[1].k = "n" /\ gin[id].args[2].k = "n"
              /\ LET l == gin[id].args[1].n  r == gin[id].args[2].n IN l \in Anc0(r) \/ r \in Anc0(l)
Skip0(id) == LET l == gin[id].args[1].n  r == gin[id].args[2].n IN IF l \in Anc0(r) THEN l ELSE r
Res0(id) == LET l == gin[id].args[1].n  r == gin[id].args[2].n IN IF l \in Anc0(r) THEN r ELSE l
ResAdds0 == {id \in DOMAIN gin : IsRes0(id)}
Users0(id) == {u \in DOMAIN gin : id \in G0In(u)}
MapT(t) == IF t \in DOMAIN TorchMap THEN TorchMap[t] ELSE t
\* branch of residual add a = nodes on paths from skip (exclusive) to res (inclusive)
Branch0(a) == {n \in Anc0(Res0(a)) \cup {Res0(a)} : Skip0(a) \in Anc0(n)}
SA0(a) == \E n \in Branch0(a) \cup {Res0(a)} : MapT(gin[n].tgt) \in SelfAttnTargets \/ gin[n].tgt \in SelfAttnTargets
\* NOTE: code walks all inputs of the residual, not only nodes downstream of skip (other operands' subgraphs count too)
BranchAll0(a) == LET RECURSIVE W(_, _)
                     W(fr, acc) == IF fr = {} THEN acc
                                   ELSE LET p == CHOOSE x \in fr : TRUE IN
                                        IF p = Skip0(a) THEN W(fr \ {p}, acc) ELSE W((fr \ {p}) \cup G0In(p), acc \cup {p})
                 IN W(G0In(Res0(a)), {Res0(a)})
SAall0(a) == \E n \in BranchAll0(a) : MapT(gin[n].tgt) \in SelfAttnTargets
Tau0(a) == IF SAall0(a) THEN "0.01" ELSE "0.5"
Unconstrained0(id) == ~ \E a \in ResAdds0 : id \in Anc0(a)
WellNested == \A a \in ResAdds0 : Users0(Skip0(a)) \ {a} \subseteq (Anc0(Res0(a)) \cup {Res0(a)})
\* recipe as a graph-to-graph map: every user (other than the add itself) of a residual block's skip reads
\* the branch output of that block's split; the add reads the skip output of the split.
RECURSIVE RT(_)
SplitT(r) == <<"call", "U.residual_split", <<RT(Skip0(r)), C(Tau0(r))>>, <<>> >>
G0T(r) == <<"call", "getitem", <<SplitT(r), C("0")>>, <<>> >>
G1T(r) == <<"call", "getitem", <<SplitT(r), C("1")>>, <<>> >>
ArgT(id, a) == IF a.k # "n" THEN a
               ELSE LET rs == {r \in ResAdds0 : Skip0(r) = a.n /\ r # id} IN
                    IF rs # {} THEN G0T(CHOOSE r \in rs : TRUE) ELSE RT(a.n)
RT(id) ==
  LET n == gin[id] IN
  IF n.op = "placeholder" THEN <<"ph", n.tgt>>
  ELSE IF n.op = "output" THEN <<"out", ArgT(id, n.args[1])>>
  ELSE IF IsRes0(id)
  THEN <<"call", "U.residual_add", <<ArgT(id, N(Res0(id))), G1T(id), C(Tau0(id))>>, <<>> >>
  ELSE IF IsAdd0(id)
  THEN <<"call", "U.add", [i \in DOMAIN n.args |-> ArgT(id, n.args[i])], <<[key |-> "constraint", val |-> C("None")]>> >>
  ELSE LET t == MapT(n.tgt)
           kw == IF t \in HasConstraintParam /\ Unconstrained0(id) THEN <<[key |-> "constraint", val |-> C("None")]>> ELSE <<>>
       IN <<"call", t, [i \in DOMAIN n.args |-> ArgT(id, n.args[i])], kw>>
\* term of the algorithm's final graph
RECURSIVE FT(_)
FArg(a) == IF a.k = "n" THEN FT(a.n) ELSE a
FT(id) == LET n == nodes[id] IN
  IF n.op = "placeholder" THEN <<"ph", n.tgt>>
  ELSE IF n.op = "output" THEN <<"out", FT(n.args[1].n)>>
  ELSE <<"call", n.tgt, [i \in DOMAIN n.args |-> FArg(n.args[i])], n.kw>>
OutF == CHOOSE id \in Live : nodes[id].op = "output"
Out0 == CHOOSE id \in DOMAIN gin : gin[id].op = "output"
\* executes: no call binds constraint twice
Executes == \A id \in Live : ~ (nodes[id].tgt = "U.add" /\ Len(nodes[id].args) = 3 /\ \E i \in DOMAIN nodes[id].kw : nodes[id].kw[i].key = "constraint")
AllLive0 == (DOMAIN gin) \ {Out0} \subseteq Anc0(Out0) \cup {2}
AlgoRefinesRecipe == (pc = "Done" /\ WellNested /\ AllLive0) => (Executes /\ FT(OutF) = RT(Out0))
Spec == Init /\ [][Next]_vars
====
