CONSTANTS K = 3
 Legacy = {}
SPECIFICATION Spec
INVARIANT AlgoRefinesRecipe
CHECK_DEADLOCK FALSE
