---- MODULE QuantMCPrototype ----
EXTENDS Integers, Sequences, FiniteSets, TLC, FiniteSetsExt
CONSTANTS HE, HM
HB == 2^(HE-1) - 1
Pow2(k) == 2^k
ShiftRNE(x, k) ==
  IF k = 0 THEN x
  ELSE IF k > HM + 2 THEN 0
  ELSE LET d == Pow2(k)  q == x \div d  r == x % d  h == d \div 2
       IN IF r > h \/ (r = h /\ q % 2 = 1) THEN q + 1 ELSE q
ExpF(p) == p \div Pow2(HM)
Man(p) == p % Pow2(HM)
EMax(E) == 2^(E-1) - 1
PMax(E, M) == (EMax(E) + HB) * Pow2(HM) + (Pow2(M) - 1) * Pow2(HM - M)
D(E) == HB - 2^(E-1)
Down(E, p) ==
  LET e == ExpF(p)  m == Man(p)  d == D(E) IN
  IF d < 0 THEN (IF e = 0 THEN 2 * p ELSE p + Pow2(HM))
  ELSE IF e = 0 THEN ShiftRNE(m, d)
  ELSE IF e - d >= 1 THEN p - d * Pow2(HM)
  ELSE ShiftRNE(Pow2(HM) + m, 1 - (e - d))
RECURSIVE Norm(_, _)
Norm(mm, sh) == IF mm >= Pow2(HM) THEN <<mm, sh>> ELSE Norm(mm * 2, sh + 1)
Up(E, p) ==
  LET d == D(E) IN
  IF p = 0 THEN 0
  ELSE IF d < 0 THEN (IF ExpF(p) <= 1 THEN p \div 2 ELSE p - Pow2(HM))
  ELSE IF ExpF(p) >= 1 THEN p + d * Pow2(HM)
  ELSE LET ns == Norm(p, 0)  e2 == 1 - ns[2] + d
       IN IF e2 >= 1 THEN e2 * Pow2(HM) + (ns[1] - Pow2(HM)) ELSE ShiftRNE(ns[1], 1 - e2)
QMag(E, M, off, p) ==
  LET S == Pow2(HM - M)
      p1 == IF p > PMax(E, M) THEN PMax(E, M) ELSE p
      p2 == Down(E, p1)
      p3 == ((p2 + off) \div S) * S
  IN Up(E, p3)
OffNearest(M) == (Pow2(HM - M) - 1) \div 2

\* ---------- declarative side: exact values in units of half a host ulp ----------
V2(p) == IF ExpF(p) = 0 THEN 2 * Man(p) ELSE 2 * (Pow2(HM) + Man(p)) * Pow2(ExpF(p) - 1)
TInts(E, M) == (0 .. Pow2(M) - 1) \cup {(Pow2(M) + m) * Pow2(e - 1) : m \in 0 .. Pow2(M) - 1, e \in 1 .. Pow2(E) - 1}
Unit(E, M) == Pow2(D(E) + HM - M + 1)
RepF == [em \in (2 .. HE) \X (0 .. HM) |-> {t * Unit(em[1], em[2]) : t \in TInts(em[1], em[2])}]
MaxF == [em \in (2 .. HE) \X (0 .. HM) |-> Max(RepF[em])]
Rep(E, M) == RepF[<<E, M>>]
Finite == 0 .. (Pow2(HE) - 1) * Pow2(HM) - 1      \* magnitude patterns with exponent field < all ones
InScope(E, p) == IF E = HE THEN ExpF(p) < Pow2(HE) - 2 ELSE TRUE   \* |x| < 2^(emax-1) analogue of 2^126
Abs(a) == IF a < 0 THEN -a ELSE a
Min2(a, b) == IF a < b THEN a ELSE b

VARIABLES E, M, p
Init == E = 0 /\ M = 0 /\ p = 0
Next == /\ E = 0 /\ E' \in 2 .. HE /\ M' \in 0 .. HM /\ p' \in Finite /\ InScope(E', p')
Spec == Init /\ [][Next]_<<E, M, p>>

q == QMag(E, M, OffNearest(M), p)
NearestOK == E # 0 =>
  LET R == Rep(E, M)
      mx == MaxF[<<E, M>>]
      x == Min2(V2(p), mx)
      lo == Max({r \in R : r <= x})
      hi == Min({r \in R : r >= x})
      qq == V2(q)
  IN /\ qq \in {lo, hi}
     /\ (Abs(x - qq) - Min2(x - lo, hi - x)) * Pow2(HM - M) <= (hi - lo)
Idempotent == E # 0 => QMag(E, M, OffNearest(M), q) = q
Monotone == (E # 0 /\ p + 1 \in Finite /\ InScope(E, p + 1)) => QMag(E, M, OffNearest(M), p + 1) >= q
FixedPoint == (E # 0 /\ V2(p) \in Rep(E, M)) => q = p
====
