---- MODULE QuantTracePrototype ----
EXTENDS Integers, Sequences, TLC, Json, IOUtils
HE == 8
HM == 23
HB == 127
Pow2(k) == 2^k
\* x >> k with round-to-nearest-even, k >= 0
ShiftRNE(x, k) ==
  IF k = 0 THEN x
  ELSE IF k > HM + 2 THEN 0
  ELSE LET d == Pow2(k)
           q == x \div d
           r == x % d
           h == d \div 2
       IN IF r > h \/ (r = h /\ q % 2 = 1) THEN q + 1 ELSE q
ExpF(p) == p \div Pow2(HM)
Man(p) == p % Pow2(HM)
EMax(E) == 2^(E-1) - 1
PMax(E, M) == (EMax(E) + HB) * Pow2(HM) + (Pow2(M) - 1) * Pow2(HM - M)
D(E) == HB - 2^(E-1)
\* divide host pattern p (finite, nonneg) by 2^D(E), D >= 0
Down(E, p) ==
  LET e == ExpF(p)  m == Man(p)  d == D(E) IN
  IF d < 0 THEN (IF e = 0 THEN 2 * p ELSE p + Pow2(HM))
  ELSE IF e = 0 THEN ShiftRNE(m, d)
  ELSE IF e - d >= 1 THEN p - d * Pow2(HM)
  ELSE ShiftRNE(Pow2(HM) + m, 1 - (e - d))
Up(E, p) ==
  LET d == D(E) IN
  IF p = 0 THEN 0
  ELSE IF d < 0 THEN (IF ExpF(p) <= 1 THEN p \div 2 ELSE p - Pow2(HM))
  ELSE IF ExpF(p) >= 1 THEN p + d * Pow2(HM)
  ELSE \* subnormal in shifted domain: normalise
       LET RECURSIVE Norm(_, _)
           Norm(mm, sh) == IF mm >= Pow2(HM) THEN <<mm, sh>> ELSE Norm(mm * 2, sh + 1)
           ns == Norm(p, 0)
           e2 == 1 - ns[2] + d
       IN IF e2 >= 1 THEN e2 * Pow2(HM) + (ns[1] - Pow2(HM))
          ELSE ShiftRNE(ns[1], 1 - e2)   \* stays host-subnormal (exact)
QMag(E, M, off, p) ==
  LET S == Pow2(HM - M)
      p1 == IF p > PMax(E, M) THEN PMax(E, M) ELSE p
      p2 == Down(E, p1)
      p3 == ((p2 + off) \div S) * S
  IN Up(E, p3)
Trace == JsonDeserialize(IOEnv.TRACE_FILE)
VARIABLE l
Init == l = 1
Next == l <= Len(Trace) /\ LET t == Trace[l] IN
          /\ QMag(t[1], t[2], t[3], t[4]) = t[5]
          /\ l' = l + 1
Spec == Init /\ [][Next]_l
Accepted == TLCGet("stats").diameter - 1 = Len(Trace)
====
