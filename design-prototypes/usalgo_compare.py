import json, operator, subprocess, os, sys, torch
import torch.nn.functional as F
from torch import nn, fx
import unit_scaling.functional as U
from unit_scaling.transforms._unit_scale import unit_scaling_backend
NAMES = {F.linear:"F.linear", F.gelu:"F.gelu", F.silu:"F.silu", F.softmax:"F.softmax", torch.matmul:"torch.matmul",
 operator.add:"operator.add", operator.iadd:"operator.iadd", operator.getitem:"getitem", torch.tanh:"torch.tanh",
 U.linear:"U.linear", U.gelu:"U.gelu", U.silu:"U.silu", U.softmax:"U.softmax", U.matmul:"U.matmul", U.add:"U.add",
 U.residual_split:"U.residual_split", U.residual_add:"U.residual_add", F.scaled_dot_product_attention:"F.sdpa", U.scaled_dot_product_attention:"U.sdpa"}
def arg(a, ids):
    if isinstance(a, fx.Node): return {"k":"n","n":ids[a]}
    if isinstance(a, (list,tuple)): return {"k":"l","l":[arg(x,ids) for x in a]}
    return {"k":"c","c":str(a)}
def project(g):
    ids = {n:i+1 for i,n in enumerate(g.nodes)}
    nodes=[]
    for n in g.nodes:
        tgt = NAMES.get(n.target, str(n.target)) if n.op=="call_function" else str(n.target)
        nodes.append({"op":n.op,"tgt":tgt,"args":[arg(a,ids) for a in n.args],
                      "kw":[{"key":k,"val":arg(v,ids)} for k,v in sorted(n.kwargs.items())]})
    return {"order":list(range(1,len(nodes)+1)),"nodes":nodes}
def term(G, nid, memo=None):
    nd = G["nodes"][nid-1]
    def a2t(a):
        if a["k"]=="n": return term(G,a["n"])
        if a["k"]=="l": return ("L",)+tuple(a2t(x) for x in a["l"])
        return ("C",a["c"])
    return (nd["op"], nd["tgt"] if nd["op"]!="placeholder" else nd["tgt"], tuple(a2t(a) for a in nd["args"]), tuple((e["key"],a2t(e["val"])) for e in nd["kw"]))
def outterm(G):
    oid=[i for i in G["order"] if G["nodes"][i-1]["op"]=="output"][0]
    return term(G,oid)
def build(kind):
    g = fx.Graph()
    x = g.placeholder("x"); w = g.placeholder("w")
    if kind == 0:
        y = g.call_function(F.linear, (x, w)); z = g.call_function(operator.add, (y, x)); g.output(z)
    if kind == 1:
        a = g.call_function(F.gelu, (x,)); b = g.call_function(F.silu, (w,)); z = g.call_function(operator.add, (a, b)); g.output(z)
    if kind == 2:
        a = g.call_function(F.gelu, (x,)); b = g.call_function(F.silu, (w,)); s = g.call_function(operator.add, (a, b))
        r = g.call_function(F.gelu, (s,)); z = g.call_function(operator.add, (s, r)); g.output(z)
    if kind == 3:  # two sequential residuals, second with softmax, then readout linear
        r = g.call_function(F.linear, (x, w)); y = g.call_function(operator.add, (x, r))
        s = g.call_function(F.softmax, (y,), {"dim": -1}); s2 = g.call_function(F.linear, (s, w)); y2 = g.call_function(operator.iadd, (s2, y))
        o = g.call_function(F.linear, (y2, w)); g.output(o)
    if kind == 4:  # nested
        a = g.call_function(F.gelu, (x,)); b = g.call_function(F.silu, (a,)); h = g.call_function(operator.add, (a, b))
        f = g.call_function(torch.tanh, (h,)); y = g.call_function(operator.add, (f, x)); g.output((y, w))
    return fx.GraphModule(nn.Module(), g)
for kind in range(5):
    gm = build(kind)
    G0 = project(gm.graph)
    json.dump(G0, open("g.json","w"))
    out = unit_scaling_backend()(gm, [])
    G1 = project(out.graph)
    env = dict(os.environ, GRAPH_FILE=os.path.abspath("g.json"), OUT_FILE=os.path.abspath("out.json"))
    r = subprocess.run(["tlc","-workers","1","-metadir","/tmp/proto/us/md","-noGenerateSpecTE","USAlgoPrototype.tla"],env=env,capture_output=True,text=True)
    if "No error has been found" not in r.stdout: print(r.stdout[-3000:])
    G2 = json.load(open("out.json"))
    same = outterm(G1)==outterm(G2)
    # order-level comparison: sequence of targets in node order
    o1=[G1["nodes"][i-1]["tgt"] for i in G1["order"]]; o2=[G2["nodes"][i-1]["tgt"] for i in G2["order"]]
    print(kind, "terms equal:", same, "order equal:", o1==o2)
    if not same or o1!=o2: print(o1); print(o2); print(outterm(G1)); print(outterm(G2))
