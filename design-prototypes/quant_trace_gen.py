import torch, json, random, sys
from unit_scaling.formats import FPFormat
random.seed(0)
N = int(sys.argv[1])
ev = []
for (E,M) in [(2,1),(4,3),(5,2),(7,10),(8,7),(3,0),(5,10),(8,23),(2,23)]:
    f = FPFormat(E,M,rounding="nearest")
    n = N // 9
    # random bit patterns (finite)
    bits = torch.randint(0, 0x7F000000 if E<8 else 0x7E800000, (n,), dtype=torch.int32)
    # add small ones
    bits[: n//4] = torch.randint(0, 1<<24, (n//4,), dtype=torch.int32)
    x = bits.view(torch.float32)
    q = f.quantise(x)
    qb = q.view(torch.int32)
    off = (1 << (23-M)) // 2 - (1 if M < 23 else 0)
    off = ((1 << (23-M)) - 1)//2
    for a,b in zip(bits.tolist(), qb.tolist()):
        ev.append([E,M,off,a,b])
json.dump(ev, open("trace.json","w"))
print(len(ev))
