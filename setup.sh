#!/bin/sh
# Offline setup: nothing to build (Python harness + TLA+ specs run from source).
# Sanity: tools present, specs parse.
set -e
cd "$(dirname "$0")"
mkdir -p .work evidence replays
command -v java >/dev/null
test -f /opt/veriftools/tla/tla2tools.jar
/venv/bin/python -c "import torch, sys; sys.path.insert(0,'/repo'); import unit_scaling"
cd spec
for f in *.tla; do
  java -cp /opt/veriftools/tla/tla2tools.jar:/opt/veriftools/tla/CommunityModules-deps.jar tla2sany.SANY "$f" >/dev/null 2>&1 || { echo "SANY failed: $f"; exit 1; }
done
echo setup ok
