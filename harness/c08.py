"""C08 -- modules equal their functional form, honour every option, start unit-scaled.

L2: Modules_MC enumerates every (leaf module, option assignment) of the table in spec/Modules.tla (3.6k states) and checks
    that every constructor option is forwarded to the functional op, consumed by construction, or rejected, that every
    parameter tag is one the optimizer rules know, and the depth-container rule; each complete configuration is emitted
    with its expectation (accept/reject, functional op, ARGUMENT MAPPING, parameter tags and initial-value classes).
L3 (A): every emitted configuration is constructed for real; module(x) and all gradients are compared BITWISE with the
    functional call assembled from the spec's argument mapping (train and eval mode, two input shapes), with the
    same-named torch.nn twin sharing the parameters (shape + scalar multiple), parameter tags / initial values; the
    composite modules (MLP, MHSA, TransformerLayer, TransformerDecoder) against compositions of the functional ops on
    their own parameters; depth containers tag depth and refuse untagged parameters.
"""
from __future__ import annotations

import ast
import json
import math
import random
from typing import Any, Dict, List, Optional, Tuple

import torch
import torch.nn.functional as F
from torch import nn

from . import common, ops
from .common import Report


def dec(v: str) -> Any:
    return ast.literal_eval(v)


def inputs_for(module: str, opts: Dict[str, Any], rng: random.Random, which: int) -> Dict[str, torch.Tensor]:
    g = torch.Generator().manual_seed(rng.randrange(1 << 30))
    if module in ("GELU", "SiLU", "Dropout"):
        return {"input": torch.randn((2, 3, 8) if which == 0 else (5,), generator=g)}
    if module == "Softmax":
        return {"input": torch.randn((2, 3, 8) if which == 0 else (4, 6), generator=g)}
    if module in ("Linear", "LinearReadout"):
        return {"input": torch.randn(((2, 3) if which == 0 else ()) + (opts["in_features"],), generator=g)}
    if module == "Conv1d":
        L = 14
        return {"input": torch.randn(((3,) if which == 0 else ()) + (opts["in_channels"], L), generator=g)}
    if module in ("LayerNorm", "RMSNorm"):
        return {"input": torch.randn((2, 4, 8) if which == 0 else (3, 4, 8), generator=g)}
    if module == "Embedding":
        ids = torch.randint(0, opts["num_embeddings"], (2, 6) if which == 0 else (9,), generator=g)
        pi = opts["padding_idx"]
        if pi is not None:
            ids.view(-1)[0] = pi % opts["num_embeddings"]     # the batch contains the padding index
            ids.view(-1)[3] = pi % opts["num_embeddings"]
        return {"input": ids}
    tgt = torch.randint(0, 5, (6,), generator=g)
    tgt[1] = opts["ignore_index"] if opts["ignore_index"] >= 0 else tgt[1]
    tgt[4] = opts["ignore_index"]
    if opts["ignore_index"] >= 0:
        tgt[0] = (opts["ignore_index"] + 1) % 5     # at least one target counts: with ALL targets ignored the mean loss is NaN (0/0), as in PyTorch
    return {"input": torch.randn(6, 5, generator=g), "target": tgt}


def call_functional(rec: Dict[str, Any], mod: nn.Module, opts: Dict[str, Any], ins: Dict[str, torch.Tensor]) -> torch.Tensor:
    import unit_scaling.functional as U

    fn = getattr(U, rec["func"])
    kwargs: Dict[str, Any] = {}
    padded = opts.get("padding_mode", "zeros") != "zeros"
    for (arg, kind, name) in rec["args"]:
        if kind == "input":
            kwargs[arg] = ins[name or "input"]
        elif kind == "opt":
            kwargs[arg] = opts[name]
        elif kind == "param":
            kwargs[arg] = getattr(mod, name, None)
        elif kind == "mode":
            kwargs[arg] = mod.training
        elif kind == "padded":
            x = ins["input"]
            kwargs[arg] = F.pad(x, mod._reversed_padding_repeated_twice, mode=opts["padding_mode"]) if padded else x
        elif kind == "padopt":
            kwargs[arg] = 0 if padded else opts[name]
        else:
            raise common.MachineryError(f"unknown source kind {kind}")
    if rec["func"] in ("layer_norm", "rms_norm"):
        ns = kwargs["normalized_shape"]
        kwargs["normalized_shape"] = (ns,) if isinstance(ns, int) else tuple(ns)
    return fn(**kwargs)


def run_both(rec: Dict[str, Any], mod: nn.Module, opts: Dict[str, Any], ins: Dict[str, torch.Tensor], seed: int):
    def one(f):
        for p in mod.parameters():
            p.grad = None
        local = {k: (v.clone().requires_grad_() if v.is_floating_point() else v.clone()) for k, v in ins.items()}
        torch.manual_seed(seed)
        y = f(local)
        gi = None
        if y.requires_grad:
            up = torch.randn(y.shape, generator=torch.Generator().manual_seed(seed + 1))
            y.backward(up)
            gi = local["input"].grad.clone() if local["input"].is_floating_point() and local["input"].grad is not None else None
        return y.detach().clone(), gi, {k: (None if p.grad is None else p.grad.clone()) for k, p in mod.named_parameters()}

    a = one(lambda d: mod(*[d[k] for k in (["input", "target"] if "target" in d else ["input"])]))
    b = one(lambda d: call_functional(rec, mod, opts, d))
    return a, b


def same_bits(u: torch.Tensor, v: torch.Tensor) -> bool:
    """Bitwise equal, NaN in the same positions counting as equal (torch.equal says NaN != NaN)."""
    if u.shape != v.shape or u.dtype != v.dtype:
        return False
    if u.is_floating_point():
        nu, nv = torch.isnan(u), torch.isnan(v)
        return bool(torch.equal(nu, nv)) and bool(torch.equal(torch.where(nu, torch.zeros_like(u), u), torch.where(nv, torch.zeros_like(v), v)))
    return bool(torch.equal(u, v))


def eq(a, b) -> Optional[str]:
    if a[0].shape != b[0].shape or not same_bits(a[0], b[0]):
        return "output"
    if (a[1] is None) != (b[1] is None) or (a[1] is not None and not same_bits(a[1], b[1])):
        return "input gradient"
    for k in a[2]:
        u, v = a[2][k], b[2][k]
        if (u is None) != (v is None) or (u is not None and not same_bits(u, v)):
            return f"gradient of {k}"
    return None


TWINS = {"GELU": nn.GELU, "SiLU": nn.SiLU, "Softmax": nn.Softmax, "Dropout": nn.Dropout, "Linear": nn.Linear, "LinearReadout": nn.Linear, "Conv1d": nn.Conv1d,
         "LayerNorm": nn.LayerNorm, "Embedding": nn.Embedding, "CrossEntropyLoss": nn.CrossEntropyLoss, "RMSNorm": nn.RMSNorm}


def twin_check(rep: Report, module: str, opts: Dict[str, Any], mod: nn.Module, ins: Dict[str, torch.Tensor], case: Dict[str, Any]) -> None:
    t_opts = {k: v for k, v in opts.items() if k not in ("constraint", "mult", "weight_mup_type")}
    if module == "GELU":
        t_opts = {"approximate": opts["approximate"]}
    if module == "CrossEntropyLoss":
        t_opts = {"ignore_index": opts["ignore_index"], "reduction": opts["reduction"]}
    if module == "Softmax":
        t_opts = {"dim": opts["dim"]}
    try:
        twin = TWINS[module](**t_opts)
    except Exception:
        return
    sd = {k: v for k, v in mod.state_dict().items()}
    twin.load_state_dict(sd, strict=False)
    twin.train(mod.training)
    torch.manual_seed(7)
    yu = mod(*ins.values())
    torch.manual_seed(7)
    xs = list(ins.values())
    if "mult" in opts and module != "CrossEntropyLoss":
        yt = twin(xs[0] * opts["mult"]) / (opts["mult"] if module != "Softmax" else 1.0)
    elif module == "CrossEntropyLoss":
        yt = twin(xs[0] * opts["mult"], xs[1])
    else:
        yt = twin(*xs)
    if yu.shape != yt.shape:
        rep.violation(f"{module}{opts}: output shape {tuple(yu.shape)} differs from torch.nn twin {tuple(yt.shape)}", case, key=f"twin_shape:{module}")
        return
    f, res = ops.fit(yu, yt)
    zero = float(yt.detach().abs().max()) == 0.0
    if not zero and (res > 1e-4 or not f > 0):
        rep.violation(f"{module}{opts}: output is not a positive scalar multiple of the torch.nn twin (factor {f:.6g}, residual {res:.3g})", case, key=f"twin_scalar:{module}")


def leaf_case(rep: Report, rec: Dict[str, Any], rng: random.Random) -> None:
    import unit_scaling as uu

    module = rec["module"]
    opts = {k: dec(v) for k, v in rec["cfg"].items()}
    label = f"{module}({', '.join(f'{k}={v!r}' for k, v in sorted(opts.items()))})"
    case = {"module": module, "cfg": rec["cfg"]}
    rep.case((module, json.dumps(rec["cfg"], sort_keys=True)), nontrivial=True)
    try:
        mod = getattr(uu, module)(**opts)
        constructed = True
    except (ValueError, AssertionError) as ex:
        constructed = False
        err = ex
    if not rec["accept"]:
        if constructed:
            rep.violation(f"{label}: an unsupported option value was accepted at construction", case, key=f"accepted_unsupported:{module}")
        return
    if not constructed:
        rep.violation(f"{label}: valid configuration rejected: {err}", case, key=f"rejected_valid:{module}")
        return
    # parameters: names, tags, initial values
    want = {p[0]: (p[1], p[2]) for p in rec["params"]}
    have = dict(mod.named_parameters())
    if set(want) != set(have):
        rep.violation(f"{label}: parameters {sorted(have)} but the spec lists {sorted(want)}", case, key=f"params:{module}")
        return
    for name, (tag, init) in want.items():
        p = have[name]
        if getattr(p, "mup_type", None) != tag or getattr(p, "mup_scaling_depth", "missing") is not None:
            rep.violation(f"{label}: parameter {name} has tag {getattr(p, 'mup_type', None)!r}/depth {getattr(p, 'mup_scaling_depth', 'missing')!r}, spec: {tag!r}/None", case, key=f"tag:{module}:{name}")
        if init == "zeros" and float(p.detach().abs().max()) != 0.0:
            rep.violation(f"{label}: {name} not initialised to zeros", case, key=f"init:{module}:{name}")
        if init == "ones" and not bool(torch.all(p.detach() == 1)):
            rep.violation(f"{label}: {name} not initialised to ones", case, key=f"init:{module}:{name}")
    for which in (0, 1):
        ins = inputs_for(module, opts, rng, which)
        if module == "Softmax" and not (-ins["input"].dim() <= opts["dim"] < ins["input"].dim()):
            continue
        for training in (True, False):
            mod.train(training)
            try:
                a, b = run_both(rec, mod, opts, ins, seed=rng.randrange(1 << 20))
            except Exception as ex:
                rep.violation(f"{label}: forward/backward raised {type(ex).__name__}: {str(ex)[:140]} (training={training}, input {tuple(ins['input'].shape)})", dict(case, training=training, which=which), key=f"raised:{module}")
                break
            bad = eq(a, b)
            if bad:
                rep.violation(f"{label}: {bad} differs from U.{rec['func']} called with the module's own options (training={training}, input {tuple(ins['input'].shape)})",
                              dict(case, training=training, which=which), key=f"functional_form:{module}:{bad.split()[0]}")
                break
        if which == 0:
            mod.train(True)
            twin_check(rep, module, opts, mod, ins, case)
    # history: a hyper-parameter the module exposes as a public attribute (as its torch.nn twin does) is CHANGED after construction
    # (dropout schedules, eps sweeps): the module must then compute the function with the new value
    ALT = {"p": [0.1, 0.6], "eps": [1e-3, 0.5], "mult": [0.5, 2.0]}
    for k in [k for k in opts if k in ALT and hasattr(mod, k) and isinstance(getattr(mod, k), (int, float))]:
        newv = [v for v in ALT[k] if v != opts[k]][0]
        setattr(mod, k, newv)
        opts2 = dict(opts, **{k: newv})
        ins = inputs_for(module, opts2, rng, 0)
        mod.train(True)
        try:
            a, b = run_both(rec, mod, opts2, ins, seed=rng.randrange(1 << 20))
        except Exception as ex:
            rep.violation(f"{label}: after setting .{k} = {newv!r}: raised {type(ex).__name__}: {str(ex)[:120]}", dict(case, changed=k), key=f"raised_after_change:{module}:{k}")
            continue
        bad = eq(a, b)
        if bad:
            rep.violation(f"{label}: after setting .{k} = {newv!r} the {bad} differs from U.{rec['func']} called with the new value (a value computed at construction went stale)",
                          dict(case, changed=k, value=newv), key=f"stale_after_change:{module}:{k}")


def init_statistics(rep: Report) -> None:
    """unit-variance weights on large instances (5 sigma of the sampling error)."""
    import unit_scaling as uu

    torch.manual_seed(common.seed() + 5)
    big = {"Linear": uu.Linear(256, 384), "LinearReadout": uu.LinearReadout(256, 384), "Conv1d": uu.Conv1d(64, 96, 5), "Embedding": uu.Embedding(512, 128)}
    for name, m in big.items():
        w = m.weight.detach().double()
        n = w.numel()
        mean, std = float(w.mean()), float(w.std())
        rep.case(("init", name))
        if abs(mean) > 5 / math.sqrt(n) or abs(std - 1) > 5 / math.sqrt(2 * n):
            rep.violation(f"{name}: fresh weight mean={mean:.4g} std={std:.4g} (n={n}) is not unit-variance", {"module": name, "mean": mean, "std": std}, key=f"init_stats:{name}")


# ---------------------------------------------------------------------- composites
def composite_cases(rep: Report, rng: random.Random, n: int) -> None:
    import einops
    import unit_scaling as uu
    import unit_scaling.functional as U
    from unit_scaling import _modules as M
    from unit_scaling.parameter import has_parameter_data

    def mlp_ref(m, x):
        z = U.silu_glu(U.linear(x, m.linear_1.weight, None, None), U.linear(x, m.linear_gate.weight, None, None))
        return U.linear(z, m.linear_2.weight, None, None)

    def mhsa_ref(m, x):
        qkv = U.linear(x, m.linear_qkv.weight, None, "to_output_scale")
        q, k, v = einops.rearrange(qkv, "b s (z h d) -> z b h s d", h=m.heads, z=3)
        # written from the documented meaning of the options, NOT from MHSA.forward: dropout acts in training mode only
        a = U.scaled_dot_product_attention(q, k, v, dropout_p=m.dropout_p if m.training else 0.0, is_causal=m.is_causal, mult=m.mult)
        a = einops.rearrange(a, "b h s d -> b s (h d)")
        return U.linear(a, m.linear_o.weight, None, "to_output_scale")

    def layer_ref(m, x):
        r, s = U.residual_split(x, tau=m.mhsa_tau)
        r = U.rms_norm(r, (x.shape[-1],), None, eps=m.mhsa_norm.eps)
        r = mhsa_ref(m.mhsa, r)
        r = U.dropout(r, m.dropout_p, m.training)
        x = U.residual_add(r, s, tau=m.mhsa_tau)
        r, s = U.residual_split(x, tau=m.mlp_tau)
        r = U.rms_norm(r, (x.shape[-1],), None, eps=m.mlp_norm.eps)
        r = mlp_ref(m.mlp, r)
        r = U.dropout(r, m.dropout_p, m.training)
        return U.residual_add(r, s, tau=m.mlp_tau)

    def decoder_ref(m, ids):
        h = U.embedding(ids, m.embedding.weight, None, None, 2.0, False, False)
        for layer in m.layers:
            h = layer_ref(layer, h)
        h = U.rms_norm(h, (h.shape[-1],), None, eps=m.final_norm.eps)
        return U.linear_readout(h, m.projection.weight, None, None)

    def compare(label, mod, ref, x, case):
        def one(f):
            for p in mod.parameters():
                p.grad = None
            xi = x.clone().requires_grad_() if x.is_floating_point() else x.clone()
            torch.manual_seed(99)
            y = f(xi)
            y.backward(torch.randn(y.shape, generator=torch.Generator().manual_seed(5)))
            return y.detach().clone(), (xi.grad.clone() if xi.is_floating_point() else None), {k: (None if p.grad is None else p.grad.clone()) for k, p in mod.named_parameters()}
        try:
            a, b = one(mod), one(lambda t: ref(mod, t))
        except Exception as ex:
            rep.violation(f"{label}: raised {type(ex).__name__}: {str(ex)[:140]}", case, key=f"raised:{case['module']}")
            return
        bad = eq(a, b)
        if bad:
            rep.violation(f"{label}: {bad} differs from the composition of unit-scaled functions on the module's own parameters", case, key=f"functional_form:{case['module']}:{bad.split()[0]}")

    import itertools

    # the discrete options are ENUMERATED (heads x causal x dropout x mult x train/eval = 32 combinations, cycled), the sizes sampled
    combos = list(itertools.product([1, 2], [False, True], [0.0, 0.1], [1.0, 0.5], [True, False]))
    rng.shuffle(combos)
    for i in range(max(n, len(combos))):
        torch.manual_seed(rng.randrange(1 << 20))
        hidden = rng.choice([4, 8])
        heads, causal, dp, mult, training = combos[i % len(combos)]
        ef = rng.choice([1, 2, 4])
        x = torch.randn(2, 3, hidden)
        m1 = uu.MLP(hidden, ef).train(training)
        compare(f"MLP(hidden={hidden}, expansion_factor={ef})", m1, mlp_ref, x, {"module": "MLP", "hidden": hidden, "expansion_factor": ef})
        m2 = uu.MHSA(hidden, heads, is_causal=causal, dropout_p=dp, mult=mult).train(training)
        compare(f"MHSA(hidden={hidden}, heads={heads}, is_causal={causal}, dropout_p={dp}, mult={mult}, training={training})", m2, mhsa_ref, x,
                {"module": "MHSA", "hidden": hidden, "heads": heads, "is_causal": causal, "dropout_p": dp, "mult": mult, "training": training})
        m3 = uu.TransformerLayer(hidden, heads, mhsa_tau=rng.choice([0.3, 1.0]), mlp_tau=rng.choice([0.5, 2.0]), is_causal=causal, dropout_p=dp).train(training)
        compare(f"TransformerLayer(hidden={hidden}, heads={heads}, is_causal={causal}, dropout_p={dp}, training={training})", m3, layer_ref, x,
                {"module": "TransformerLayer", "hidden": hidden, "heads": heads, "is_causal": causal, "dropout_p": dp, "training": training})
        layers = rng.choice([1, 2, 3])
        m4 = uu.TransformerDecoder(hidden, vocab_size=11, layers=layers, heads=heads, dropout_p=dp).train(training)
        ids = torch.randint(0, 11, (2, 5))
        compare(f"TransformerDecoder(hidden={hidden}, layers={layers}, heads={heads}, dropout_p={dp}, training={training})", m4, decoder_ref, ids,
                {"module": "TransformerDecoder", "hidden": hidden, "layers": layers, "heads": heads, "dropout_p": dp, "training": training})
        # TransformerDecoder.loss = cross entropy of the logits at position t against the token at t + 1
        if i % 4 == 0:
            torch.manual_seed(99)
            got = m4.loss(ids)
            torch.manual_seed(99)
            lg = m4(ids).float()
            want = U.cross_entropy(lg[..., :-1, :].flatten(end_dim=-2), ids[..., 1:].flatten())
            plain = F.cross_entropy(lg[..., :-1, :].flatten(end_dim=-2), ids[..., 1:].flatten())
            if not torch.equal(got, want) or abs(float(got) - float(plain)) > 1e-5 * max(1.0, abs(float(plain))):
                rep.violation(f"TransformerDecoder.loss(ids) = {float(got)!r}, cross entropy of the shifted logits = {float(want)!r} (torch: {float(plain)!r})",
                              {"module": "TransformerDecoder", "what": "loss", "layers": layers, "heads": heads, "training": training}, key="functional_form:TransformerDecoder:loss")
        # mode-level clauses that need no reference: evaluation mode is deterministic
        if not training and dp > 0:
            for lab, mm_, xx_ in (("MHSA", m2, x), ("TransformerLayer", m3, x), ("TransformerDecoder", m4, ids)):
                if not torch.equal(mm_(xx_), mm_(xx_)):
                    rep.violation(f"{lab}(dropout_p={dp}) in eval mode gives different outputs on repeated calls (dropout still active)", {"module": lab, "dropout_p": dp, "what": "eval_nondeterministic"}, key=f"eval_nondeterministic:{lab}")
        rep.case(("composite", i))
        # tags and depth
        for name, p in m4.named_parameters():
            want_depth = layers if name.startswith("layers.") else None
            want_tag = "output" if name.startswith("projection") else ("norm" if "norm" in name else "weight")
            if not has_parameter_data(p) or p.mup_type != want_tag or p.mup_scaling_depth != want_depth:
                rep.violation(f"TransformerDecoder parameter {name}: tag {getattr(p, 'mup_type', None)!r}, depth {getattr(p, 'mup_scaling_depth', 'missing')!r}; expected {want_tag!r}, {want_depth!r}",
                              {"module": "TransformerDecoder", "param": name, "layers": layers}, key="decoder_tags")
                break
    # depth containers (spec: Wrap): depth = number of CHILDREN, whichever way the container is constructed
    from collections import OrderedDict

    def kid():
        return rng.choice([lambda: uu.Linear(3, 3, bias=True), lambda: uu.Linear(3, 3), lambda: uu.MLP(3, 2), lambda: uu.LayerNorm(3)])()

    forms = [("DepthModuleList(list)", M.DepthModuleList, lambda ks: M.DepthModuleList(ks)),
             ("DepthModuleList(generator)", M.DepthModuleList, lambda ks: M.DepthModuleList(k_ for k_ in ks)),
             ("DepthSequential(*modules)", M.DepthSequential, lambda ks: M.DepthSequential(*ks)),
             ("DepthSequential(OrderedDict)", M.DepthSequential, lambda ks: M.DepthSequential(OrderedDict((f"layer{i}", k_) for i, k_ in enumerate(ks))))]
    for label, cls, make in forms:
        for k in (1, 2, 3, rng.randint(4, 6), 11, 12):      # 11, 12: past the decimal-digit boundary of the child names "9" / "10"
            kids = [kid() for _ in range(k)]
            rep.case(("container", label, k))
            try:
                c = make(kids)
            except Exception as ex:
                rep.violation(f"{label} of {k} unit-scaled layers raised {type(ex).__name__}: {str(ex)[:120]}", {"module": cls.__name__, "form": label, "k": k}, key=f"container_raised:{label}")
                continue
            if len(c) != k or any(p.mup_scaling_depth != k for p in c.parameters()):
                rep.violation(f"{label} of {k} layers does not record depth {k} on every parameter (recorded: {sorted({p.mup_scaling_depth for p in c.parameters()}, key=str)})",
                              {"module": cls.__name__, "form": label, "k": k}, key=f"container_depth:{label}")
            if len(c) == k and any(a is not b for a, b in zip(list(c), kids)):
                rep.violation(f"{label} of {k} layers holds them in another order than given (positions {[kids.index(a) if a in kids else -1 for a in c]})",
                              {"module": cls.__name__, "form": label, "k": k}, key=f"container_order:{label}")
            if cls is M.DepthSequential:
                x = torch.randn(2, 3)
                y, h = c(x), x
                for k_ in kids:
                    h = k_(h)
                if not torch.equal(y, h):
                    rep.violation(f"{label}: forward differs from applying its layers in order", {"module": cls.__name__, "form": label, "k": k}, key=f"container_forward:{label}")
    for layers in (1, 2, 4):
        st = M.TransformerStack(layers, hidden_size=4, heads=2, is_causal=True, dropout_p=0.0)
        rep.case(("container", "TransformerStack", layers))
        if len(st) != layers or any(p.mup_scaling_depth != layers for p in st.parameters()):
            rep.violation(f"TransformerStack({layers}) does not record depth {layers} on every parameter", {"module": "TransformerStack", "k": layers}, key="container_depth:TransformerStack")
    for cls in (M.DepthModuleList, M.DepthSequential):
        try:
            bad = [uu.Linear(3, 3), nn.Linear(3, 3)]
            cls(bad) if cls is M.DepthModuleList else cls(*bad)
            rep.violation(f"{cls.__name__} accepted an untagged parameter", {"module": cls.__name__}, key="container_untagged")
        except ValueError:
            pass


def run(rep: Report, tier: str) -> None:
    rng = random.Random(common.seed() * 71 + 22)
    torch.set_num_threads(2)
    quick = tier == "quick"
    res = common.run_tlc("Modules_MC", "Modules_MC.cfg", coverage=True, timeout=600, tag="modmc")
    common.tlc_must_pass(res, "Modules_MC")
    rep.add_tlc(res)
    cfgs = res.printed("MODCFG")
    if len(cfgs) < 2000:
        raise common.MachineryError(f"Modules_MC emitted only {len(cfgs)} configurations")
    rep.extra["configurations_emitted_by_tlc"] = len(cfgs)
    for rec in cfgs:
        rec["args"] = [list(a) for a in rec["args"]]
        if quick and rec["module"] == "Conv1d" and rng.random() > 0.25:
            continue
        leaf_case(rep, rec, rng)
    rep.exhaustive = not quick
    init_statistics(rep)
    composite_cases(rep, rng, 6 if quick else 400)
    rep.traces = rep.evaluations
    rep.rule = "every (leaf module, option assignment) emitted by TLC (quick: 25% of the Conv1d product) x train/eval x two input shapes; composite modules with random options; non-trivial = all"
    rep.sample(cfgs[0])
    rep.sample(cfgs[len(cfgs) // 2])
    rep.assumptions += ["bitwise comparison with the functional call under a pinned RNG (dropout)", "unit-variance check at 5 sigma of the sampling error on large instances"]


def replay(rep: Report, path: str) -> None:
    d = json.load(open(path))
    c = d["case"]
    rep.case("replay")
    rep.case(json.dumps(c)[:200])
    rep.sample(c)
    res = common.run_tlc("Modules_MC", "Modules_MC.cfg", timeout=600, tag="modmc")
    common.tlc_must_pass(res, "Modules_MC")
    rep.add_tlc(res)
    rep.traces = 1
    rng = random.Random(1)
    if "cfg" in c:
        for rec in res.printed("MODCFG"):
            if rec["module"] == c["module"] and rec["cfg"] == c["cfg"]:
                rec["args"] = [list(a) for a in rec["args"]]
                leaf_case(rep, rec, rng)
    else:
        composite_cases(rep, rng, 10)
