"""C13 -- nearest-rounding quantisation returns the nearest representable value.

L2: Quantise_MC on small hosts (every pattern x every format).
L3 (direction B): events recorded from the real FPFormat.quantise validated by
Quantise_Trace at host (8,23): model step + declarative Nearest/Representable/
Saturates on every event.
"""
from __future__ import annotations

import json
import random
from typing import Any, Dict, List

import numpy as np
import torch

from . import common
from .common import Report
from . import quant

HOSTS_QUICK = ["3_6"]
HOSTS_THOROUGH = ["4_6", "4_8", "3_10"]


def l2(rep: Report, tier: str, mode: str, hosts_quick=HOSTS_QUICK, hosts_thorough=HOSTS_THOROUGH) -> None:
    hosts = hosts_quick if tier == "quick" else hosts_thorough
    for h in hosts:
        res = common.run_tlc("Quantise_MC", f"Quantise_MC_{h}_{mode}.cfg", coverage=True, timeout=1500, tag="qmc")
        common.tlc_must_pass(res, f"Quantise_MC host {h} {mode}")
        rep.add_tlc(res)
        rep.extra.setdefault("l2_runs", []).append({"host": h, "mode": mode, "states": res.distinct, "wall_s": round(res.wall, 1)})
    # non-vacuity: named deviations must be refuted on the smallest host
    dev = {"nearest": [("round_up", "NearestOK"), ("no_clip", None)], "stoch": [("no_bias_correction", None), ("no_clip", None)]}[mode]
    for name, inv in dev:
        res = common.run_tlc("Quantise_MC", f"Quantise_MC_3_4_{mode}_{name}.cfg", timeout=300, tag="qleg")
        common.tlc_must_fail(res, f"Quantise_MC Legacy={name}", inv)
        rep.extra.setdefault("l2_refuted_deviations", []).append({"legacy": name, "violated": res.violated_invariant})


def compress(pats: np.ndarray, xs: np.ndarray, qs: np.ndarray, qm: np.ndarray) -> np.ndarray:
    """Indices to keep: both ends of every maximal run of equal result magnitude
    over the sorted inputs, plus any event whose sign is not preserved."""
    n = len(pats)
    if n == 0:
        return np.zeros(0, dtype=np.int64)
    ch = np.flatnonzero(qm[1:] != qm[:-1])
    keep = np.concatenate([[0, n - 1], ch, ch + 1, np.flatnonzero(xs != qs)])
    return np.unique(keep)


_SHARED: Dict[str, Any] = {}


def format_object(E: int, M: int, reuse: bool) -> Any:
    """A fresh FPFormat, or -- FPFormat is a plain mutable dataclass -- ONE long-lived object whose exponent_bits / mantissa_bits
    are re-assigned after it has been used for another format (anything memoised on the object would be stale)."""
    from unit_scaling.formats import FPFormat

    if not reuse:
        return FPFormat(E, M, rounding="nearest")
    f = _SHARED.get("f")
    if f is None:
        f = _SHARED["f"] = FPFormat(5, 2, rounding="nearest")
        f.quantise(torch.tensor([1.0, 300.0, 1e9]))
        _ = (f.max_absolute_value, f.min_absolute_normal, f.min_absolute_subnormal)
    f.exponent_bits, f.mantissa_bits = E, M
    return f


def events_for(E: int, M: int, pats: np.ndarray, do_compress: bool, reuse: bool = False) -> List[List[int]]:
    f = format_object(E, M, reuse)
    x = quant.to_tensor(pats)
    x0 = x.clone()
    q = f.quantise(x)
    xs, xm = quant.bits(x)
    qs, qm = quant.bits(q)
    ev: List[List[int]] = []
    ok_api = [int(q.shape == x.shape), int(q.dtype == x.dtype), int(torch.equal(x.view(torch.int32), x0.view(torch.int32))), 1]
    ev.append([E, M, 3, 0] + ok_api + [0, 0])
    idx = compress(pats, xs, qs, qm) if do_compress else np.arange(len(pats))
    for i in idx.tolist():
        ev.append([E, M, 0, 0, int(xs[i]), int(xm[i]), int(qm[i]), 0, int(qs[i]), 0])
    return ev, len(pats)


def api_events(rng: random.Random) -> List[List[int]]:
    """Ranks 0-3, empty, non-contiguous; float64/bfloat16/float16 inputs."""
    from unit_scaling.formats import FPFormat

    ev: List[List[int]] = []
    cases = []
    g = torch.Generator().manual_seed(rng.randrange(1 << 30))
    for (E, M) in [(4, 3), (5, 2), (2, 1), (3, 0), (6, 5), (7, 7), (8, 4), (4, 10)]:
        for shape in [(), (0,), (5,), (2, 3), (2, 0, 3), (2, 3, 4)]:
            cases.append((E, M, torch.float32, shape, False))
        cases.append((E, M, torch.float32, (4, 6), True))
        cases.append((E, M, torch.float64, (3, 5), False))
        cases.append((E, M, torch.float64, (), False))
        if E <= 7 and M <= 7:
            cases.append((E, M, torch.bfloat16, (3, 5), False))
            cases.append((E, M, torch.bfloat16, (4, 6), True))
        if (E <= 4 and M <= 10) or (E, M) == (5, 2):
            cases.append((E, M, torch.float16, (3, 5), False))
            cases.append((E, M, torch.float16, (), False))
    for (E, M, dt, shape, noncontig) in cases:
        f = FPFormat(E, M, rounding="nearest")
        scale = 2.0 ** rng.randint(-6, 6)
        x = (torch.randn(shape, generator=g, dtype=torch.float64) * scale).to(dt)
        if noncontig:
            x = x.t() if x.dim() == 2 else x
            x = x[:, ::2]
        x0 = x.clone()
        try:
            q = f.quantise(x)
        except Exception as ex:  # a crash is an API failure
            ev.append([E, M, 3, 0, 0, 0, 1, 0, 0, 0])
            continue
        same_bits = torch.equal(x.contiguous().reshape(-1).view(torch.uint8), x0.contiguous().reshape(-1).view(torch.uint8))
        roundtrip = bool(torch.equal(q.to(torch.float32).to(dt), q)) if q.numel() else True
        ev.append([E, M, 3, 0, int(q.shape == x.shape), int(q.dtype == dt), int(same_bits), int(roundtrip), 0, 0])
        if q.shape == x.shape and x.numel():
            x32 = x.to(torch.float32).reshape(-1)
            q32 = q.to(torch.float32).reshape(-1)
            xs, xm = quant.bits(x32)
            qs, qm = quant.bits(q32)
            for i in range(x32.numel()):
                if E == 8 and xm[i] >= ((126 + 127) << 23):
                    continue
                ev.append([E, M, 0, 0, int(xs[i]), int(xm[i]), int(qm[i]), 0, int(qs[i]), 0])
    return ev


def range_events() -> List[List[int]]:
    """max / min-normal / min-subnormal properties of every format against the spec's value set."""
    import math

    from unit_scaling.formats import FPFormat

    ev = []
    for (E, M) in quant.ALL_FORMATS:
        f = format_object(E, M, reuse=(E + 2 * M) % 4 == 1)
        mx = float(f.max_absolute_value)
        pat = int(np.float32(mx).view(np.uint32)) if np.float64(np.float32(mx)) == mx else -1
        mn, ms = float(f.min_absolute_normal), float(f.min_absolute_subnormal)
        (m1, e1), (m2, e2) = math.frexp(mn), math.frexp(ms)
        pow2 = int(m1 == 0.5 and m2 == 0.5)
        ev.append([E, M, 6, 0, 0, pat, e1 - 1, e2 - 1, pow2, 0])
    return ev


def exhaustive(E: int, M: int, rep: Report) -> List[List[int]]:
    """All 2^32 float32 patterns (finite + inf) through the real code, compressed
    to maximal runs; Nearest at both ends of a run decides the whole run."""
    from unit_scaling.formats import FPFormat

    f = FPFormat(E, M, rounding="nearest")
    ev: List[List[int]] = []
    CH = 1 << 25
    total = 0
    prev_last = None  # (pattern, qm) of previous chunk's last element per sign
    for sign in (0, 1):
        last_q = None
        last_p = None
        for start in range(0, quant.INF + 1, CH):
            stop = min(start + CH, quant.INF + 1)
            p = torch.arange(start, stop, dtype=torch.int64)
            b = (p | (sign << 31)).to(torch.int64)
            x = (b & 0xFFFFFFFF).to(torch.uint32).view(torch.float32) if hasattr(torch, "uint32") else None
            x = torch.from_numpy(b.numpy().astype(np.uint32).view(np.float32))
            q = f.quantise(x)
            qb = q.view(torch.int32).numpy().astype(np.int64) & 0xFFFFFFFF
            qs = (qb >> 31) & 1
            qm = qb & 0x7FFFFFFF
            pn = p.numpy()
            ch = np.flatnonzero(qm[1:] != qm[:-1])
            keep = set(np.concatenate([[0, len(pn) - 1], ch, ch + 1]).tolist())
            keep |= set(np.flatnonzero(qs != sign).tolist()[:100])
            # runs continuing across chunk borders: chunk ends are kept, which only adds events
            for i in sorted(keep):
                ev.append([E, M, 0, 0, sign, int(pn[i]), int(qm[i]), 0, int(qs[i]), 0])
            total += len(pn)
    rep.extra.setdefault("exhaustive_float32", []).append({"format": [E, M], "inputs": total, "events_after_run_compression": len(ev)})
    return ev


def run(rep: Report, tier: str) -> None:
    rng = random.Random(common.seed() * 7919 + 13)
    torch.manual_seed(common.seed())
    l2(rep, tier, "nearest")

    quick = tier == "quick"
    all_events: List[List[int]] = []
    n_inputs = 0
    for (E, M) in quant.ALL_FORMATS:
        nvals = 40 if quick else 2048
        # random mantissas per float32 exponent: the quantifier asks 2^14; with run
        # compression the TLC cost is ~2 events per representable value crossed
        nrand = 1 if quick else (1 << 14 if E + M <= 10 else (1 << 8 if E + M <= 16 else 16))
        pats = quant.inputs_for_format(E, M, rng, nvals, nrand)
        ev, n = events_for(E, M, pats, do_compress=not quick or True, reuse=(E + M) % 3 == 0)
        n_inputs += n
        all_events += ev
        rep.case(("fmt", E, M))
    api = api_events(rng) + range_events()
    all_events += api
    if not quick:
        for (E, M) in [(4, 3), (5, 2)]:
            all_events += exhaustive(E, M, rep)
            n_inputs += 2 * (quant.INF + 1)

    rep.evaluations = n_inputs + len(api)
    rep.rule = (
        "inputs per format: representable values, midpoints, +-4ulp float32 neighbours, random mantissas per float32 "
        "exponent, +-0, +-inf, alternating signs; sorted inputs are run-compressed (both ends of every maximal run of equal "
        "result are sent to TLC: the set of inputs for which a given result satisfies Nearest is an interval); "
        "distinct_nontrivial = distinct (format, input pattern) events sent to TLC whose input is not itself representable "
        "is not measured separately: counted = distinct events validated by TLC"
    )
    # validate in batches (JSON size)
    B = 400000
    fails: List[Any] = []
    for i in range(0, len(all_events), B):
        batch = all_events[i : i + B]
        r = common.validate_traces("Quantise_Trace", "Quantise_Trace.cfg", batch, timeout=1800, tag="qtr")
        rep.add_trace_result(r)
        for (l, clause) in r["fails"]:
            e = batch[l - 1]
            fails.append((clause, e))
    distinct = {tuple(e) for e in all_events}
    rep.nontrivial = distinct  # type: ignore
    rep.extra["events_validated_by_tlc"] = len(all_events)
    rep.extra["inputs_run_through_real_code"] = n_inputs
    for e in all_events[:: max(1, len(all_events) // 5)][:5]:
        rep.sample({"event[E,M,kind,s,xs,x,a,b,qs,c]": e})
    for clause, e in fails:
        rep.violation(
            f"quantise event rejected by Quantise_Trace: clause={clause} E={e[0]} M={e[1]} kind={e[2]} x=0x{e[5]:08x} sign={e[4]} result=0x{e[6]:08x}",
            {"event": e, "clause": clause},
            key=f"{clause}:E{e[0]}M{e[1]}:kind{e[2]}",
        )
    rep.assumptions += [
        "float32 arithmetic of torch (division/multiplication by powers of two is IEEE RNE)",
        "interval argument for run compression (acceptable-input set of a result is an interval)",
    ]


def replay(rep: Report, path: str) -> None:
    d = json.load(open(path))
    e = d["case"]["event"]
    from unit_scaling.formats import FPFormat

    E, M = e[0], e[1]
    evs = [e]
    if e[2] == 0:
        x = torch.from_numpy(np.array([e[5] | (e[4] << 31)], dtype=np.uint32).view(np.float32))
        q = FPFormat(E, M, rounding="nearest").quantise(x)
        qs, qm = quant.bits(q)
        e = [E, M, 0, 0, e[4], e[5], int(qm[0]), 0, int(qs[0]), 0]
        evs = [e]
    elif e[2] == 6:     # range properties: recompute from the current code
        evs = [v for v in range_events() if v[0] == E and v[1] == M]
        e = evs[0]
    elif e[2] == 3:     # API observations: recompute all of them
        evs = [v for v in api_events(random.Random(common.seed() * 7919 + 13)) if v[2] == 3]
    r = common.validate_traces("Quantise_Trace", "Quantise_Trace.cfg", evs, tag="qrp")
    rep.add_trace_result(r)
    rep.case(tuple(e))
    rep.case("replay")
    rep.sample(e)
    for (l, clause) in r["fails"]:
        rep.violation(f"replayed event rejected: {clause}", {"event": evs[l - 1], "clause": clause}, key=f"{clause}:E{E}M{M}:kind{e[2]}")
