"""C11 -- parameter groups are preserved; weight decay is learning-rate independent.

L2: Optim_MC phase "loop": scaled_parameters step by step on every input with
    <= 2 groups x <= 2 params (lr absent/float/tensor/shared tensor, weight decay
    absent/explicit 0/value, extra keys, tagged/untagged, both flags): order,
    aliasing, caller immutability; Legacy {"clone_only_tagged"}, {"no_clone"} refuted.
L3 (A): every terminal state emitted by TLC is rebuilt from real objects and run
    through scaled_parameters / the optimizer classes; random larger inputs are
    evaluated point-wise by Optim_Eval; then 1-3 real SGD/AdamW steps with zero
    gradients against the spec's DecayFactor.
"""
from __future__ import annotations

import json
import random
from fractions import Fraction
from typing import Any, Dict, List, Optional, Tuple

import torch
from torch import nn

from . import common
from .common import Report

WD_VALUE = {0: None, 1: 0.0, 2: 0.125, 3: 0.3, 4: 0.5, 5: 0.01}
WD_RAT = {1: (0, 1), 2: (1, 8), 3: (3, 10), 4: (1, 2), 5: (1, 100)}
FLOAT_LR = {-1: 0.75}  # global float lr; group float lrs get 0.75 / (3 + g)
EXTRA = {"momentum": 0.0, "betas": (0.8, 0.9), "eps": 1e-6, "nesterov": False, "foo": "bar"}


def build(inp: Dict[str, Any], shape_of: Optional[Dict[int, Tuple[str, List[int], int]]] = None):
    """Real objects for an abstract input.  Tagged parameters are 'weight' (4, 4):
    Adam factor 1/2 -- not 1, so an in-place multiply on a caller tensor shows."""
    from unit_scaling.parameter import Parameter

    cells: Dict[int, torch.Tensor] = {}

    def cell(c: int) -> torch.Tensor:
        if c not in cells:
            cells[c] = torch.tensor(0.5 + 0.0625 * c, dtype=torch.float64)
        return cells[c]

    params: Dict[int, nn.Parameter] = {}
    groups = []
    for gi, g in enumerate(inp["groups"]):
        ps = []
        for p in g["params"]:
            if shape_of and p["id"] in shape_of:
                tag, shape, depth = shape_of[p["id"]]
            else:
                tag, shape, depth = "weight", [4, 4], 0
            data = torch.full(shape, 1.0 + 0.01 * p["id"], dtype=torch.float64)
            q = Parameter(data, tag, depth or None) if p["tagged"] else nn.Parameter(data)
            if p["id"] % 3 == 2:
                q.requires_grad_(False)   # every third parameter is frozen when the groups are built: the property speaks of every parameter
            params[p["id"]] = q
            ps.append(q)
        d: Dict[str, Any] = {"params": ps}
        if g["lr"] == -1:
            d["lr"] = 0.75 / (3 + gi)
        elif g["lr"] > 0:
            d["lr"] = cell(g["lr"])
        if g["wd"] != 0:
            d["weight_decay"] = WD_VALUE[g["wd"]]
        for k in g["keys"]:
            d[k] = EXTRA[k]
        groups.append(d)
    glr: Any = None if inp["glr"] == 0 else (FLOAT_LR[-1] if inp["glr"] == -1 else cell(inp["glr"]))
    return groups, glr, cells, params


def snapshot(groups: List[Dict[str, Any]], cells: Dict[int, torch.Tensor]):
    return (
        [{k: (id(v) if not isinstance(v, (int, float, str, tuple, bool)) else v) for k, v in g.items()} | {"__params": [id(p) for p in g["params"]]} for g in groups],
        {c: float(t) for c, t in cells.items()},
    )


def project(inp: Dict[str, Any], result: List[Dict[str, Any]], groups, glr, cells, params, factor_of) -> List[Dict[str, Any]]:
    """Real result groups -> the spec's abstract result records."""
    pid = {id(p): i for i, p in params.items()}
    cell_id = {id(t): c for c, t in cells.items()}
    nxt = max([0] + list(cells)) + 1
    fresh: Dict[int, int] = {}
    # source lr value of every input lr, to identify `src`
    src_val: Dict[Any, float] = {}
    if inp["glr"] != 0:
        src_val[inp["glr"]] = float(glr)
    for gi, g in enumerate(inp["groups"]):
        if g["lr"] == -1:
            src_val[("f", gi)] = 0.75 / (3 + gi)
        elif g["lr"] > 0:
            src_val[g["lr"]] = 0.5 + 0.0625 * g["lr"]
    out = []
    for rg in result:
        rec: Dict[str, Any] = {}
        ps = rg["params"]
        rec["p"] = pid.get(id(ps[0]), -1) if len(ps) == 1 else -2
        lr = rg["lr"]
        if isinstance(lr, torch.Tensor):
            if id(lr) in cell_id:
                rec["lr"] = cell_id[id(lr)]
            else:
                if id(lr) not in fresh:
                    fresh[id(lr)] = nxt
                    nxt += 1
                rec["lr"] = fresh[id(lr)]
        else:
            rec["lr"] = -1
        p = ps[0]
        tagged = hasattr(p, "mup_type")
        f = factor_of(p) if tagged else 1.0
        rec["scaled"] = tagged
        # which input lr does it derive from?
        cand = [k for k, v in src_val.items() if abs(float(lr) - v * f) <= 1e-12 * abs(v * f)]
        srcs = [(-1 if (k == -1 or isinstance(k, tuple)) else k) for k in cand]
        rec["src"] = srcs[0] if len(set(srcs)) == 1 else (-99 if not srcs else -98)
        rec["src_float_group"] = [k[1] for k in cand if isinstance(k, tuple)]
        wd = rg["weight_decay"]
        req = wd * float(lr) if inp["indep"] else wd
        ids = [i for i, v in WD_VALUE.items() if v is not None and abs(req - v) <= 1e-12 * max(1.0, abs(v))]
        rec["wd"] = ids[0] if ids else -1
        rec["indep"] = inp["indep"]
        rec["keys"] = sorted(k for k in rg if k not in ("params", "lr", "weight_decay"))
        rec["keyvals_ok"] = all(rg[k] == EXTRA.get(k) for k in rec["keys"])
        out.append(rec)
    return out


def run_real(inp: Dict[str, Any], via: str, form: str = "groups"):
    from unit_scaling import optim as O

    groups, glr, cells, params = build(inp)
    before = snapshot(groups, cells)
    arg: Any = groups
    bare = form not in ("groups", "groups_iter", "groups_tuple", "groups_gen")
    if form == "groups_iter":      # the containers torch accepts for a group's params: one-shot iterators, tuples, generators
        arg = [dict(g_, params=iter(list(g_["params"]))) for g_ in groups]
    elif form == "groups_tuple":
        arg = [dict(g_, params=tuple(g_["params"])) for g_ in groups]
    elif form == "groups_gen":
        arg = [dict(g_, params=(p_ for p_ in list(g_["params"]))) for g_ in groups]
    if bare:
        flat = [p for g in groups for p in g["params"]]
        arg = flat if form == "list" else (p for p in flat)
    gwd = WD_VALUE[inp["gwd"]]
    err = None
    result = None
    opt = None
    try:
        if via == "scaled_parameters":
            result = O.scaled_parameters(arg, O.lr_scale_func_adam, lr=glr, weight_decay=gwd,
                                         independent_weight_decay=inp["indep"], allow_non_unit_scaling_params=inp["allow"])
        else:
            cls = {"SGD": O.SGD, "AdamW": O.AdamW, "Adam": O.Adam}[via]
            extra = {}
            opt = cls(arg, lr=glr, weight_decay=gwd, independent_weight_decay=inp["indep"], allow_non_unit_scaling_params=inp["allow"], **extra)
            result = opt.param_groups
    except ValueError as ex:
        err = str(ex)
    after = snapshot(groups, cells)
    touched = sorted(c for c in before[1] if before[1][c] != after[1][c])
    mutated = before[0] != after[0]
    obs = None
    if result is not None:
        obs = project(inp, result, groups, glr, cells, params, lambda p: O.lr_scale_func_adam(p))
        if via != "scaled_parameters":
            # torch adds its own defaults to param_groups: only keys of the source group are compared
            for rec, rg in zip(obs, result):
                pass
    return {"err": err, "res": obs, "touched": touched, "mutated": mutated, "opt": opt, "params": params}


def classify(msg: Optional[str]) -> str:
    if msg is None:
        return ""
    if "requires lr" in msg:
        return "lr_missing"
    if "Non-unit-scaling" in msg:
        return "untagged"
    return "other:" + msg[:60]


def compare(rep: Report, inp: Dict[str, Any], exp_res: List[Dict[str, Any]], exp_err: str, got: Dict[str, Any], via: str, form: str) -> None:
    label = f"via={via}/{form} input={json.dumps(inp, sort_keys=True)}"
    case = {"inp": inp, "via": via, "form": form, "expected": {"res": exp_res, "err": exp_err}, "observed": {k: got[k] for k in ("err", "res", "touched", "mutated")}}
    if got["touched"] or got["mutated"]:
        rep.violation(f"caller's {'lr tensor(s) ' + str(got['touched']) if got['touched'] else 'group dicts'} altered: {label}", case, key="caller_altered:" + via)
    if exp_err:
        if got["err"] is None:
            rep.violation(f"expected ValueError ({exp_err}) but the call succeeded: {label}", case, key="missing_error:" + exp_err)
        return
    if got["err"] is not None:
        rep.violation(f"unexpected error {got['err'][:80]}: {label}", case, key="unexpected_error:" + classify(got["err"]))
        return
    obs = got["res"]
    if len(obs) != len(exp_res):
        rep.violation(f"{len(obs)} result groups, spec expects {len(exp_res)}: {label}", case, key="count:" + via)
        return
    ngroups = len(inp["groups"])
    for k, (o, e) in enumerate(zip(obs, exp_res)):
        ekeys = sorted(e["keys"])
        okeys = [x for x in o["keys"] if via == "scaled_parameters" or x in EXTRA and x in ekeys]
        for field, ov, evv in (("p", o["p"], e["p"]), ("lr", o["lr"], e["lr"]), ("src", o["src"], e["src"]), ("wd", o["wd"], e["wd"]), ("keys", okeys, ekeys)):
            if ov != evv:
                rep.violation(f"result group {k + 1}: {field} = {ov}, spec expects {evv} ({_explain(field)}): {label}", case, key=f"{field}:{via}")
                return
        if not o["keyvals_ok"] and via == "scaled_parameters":
            rep.violation(f"result group {k + 1}: extra option values changed: {label}", case, key="keyvals")
            return


def _explain(field: str) -> str:
    return {
        "p": "parameter identity / order / one per group",
        "lr": "-1 = python float, caller cell ids first, then fresh cells in order: aliasing",
        "src": "which input learning rate the group's lr derives from",
        "wd": "id of the requested decay recovered from lr x weight_decay (independent) or weight_decay",
        "keys": "extra options of the source group",
    }[field]


def norm_inp(inp: Dict[str, Any]) -> Dict[str, Any]:
    return {
        "glr": inp["glr"], "gwd": inp["gwd"], "indep": inp["indep"], "allow": inp["allow"],
        "groups": [{"params": [{"id": p["id"], "tagged": p["tagged"]} for p in g["params"]], "lr": g["lr"], "wd": g["wd"], "keys": sorted(g["keys"])} for g in inp["groups"]],
    }


def random_inputs(rng: random.Random, n: int) -> List[Dict[str, Any]]:
    out = []
    for _ in range(n):
        ng = rng.randint(1, 6)
        ncell = rng.randint(0, 3)
        pid = 0
        groups = []
        allow = rng.random() < 0.5
        for g in range(ng):
            ps = []
            for _ in range(rng.randint(1, 5)):
                pid += 1
                ps.append({"id": pid, "tagged": rng.random() < (0.7 if allow else 0.93)})
            lr = rng.choice([0, -1] + list(range(1, ncell + 1)))
            keys = sorted(rng.sample(["momentum", "betas", "eps", "nesterov", "foo"], rng.randint(0, 2)))
            groups.append({"params": ps, "lr": lr, "wd": rng.choice([0, 0, 1, 2, 3, 4, 5]), "keys": keys})
        glr = rng.choice([0, -1, -1] + list(range(1, ncell + 1)))
        out.append({"kind": "loop", "glr": glr, "gwd": rng.choice([1, 2, 3, 4]), "indep": rng.random() < 0.7, "allow": allow, "groups": groups})
    return out


def bare_ok(inp: Dict[str, Any]) -> bool:
    return all(g["lr"] == 0 and g["wd"] == 0 and not g["keys"] and len(g["params"]) == 1 for g in inp["groups"])


def decay_steps(rep: Report, rng: random.Random, n: int) -> None:
    """Real SGD / AdamW steps with zero gradients vs the spec's DecayFactor."""
    from unit_scaling import optim as O
    from unit_scaling.parameter import Parameter

    cases = []
    for _ in range(n):
        wdid = rng.choice([1, 2, 3, 4, 5])
        cases.append({"kind": "decay", "wd": list(WD_RAT[wdid]), "steps": rng.randint(1, 3), "wdid": wdid,
                      "opt": rng.choice(["SGD", "AdamW"]), "lr": 10 ** rng.uniform(-4, 0.5), "lrkind": rng.choice(["float", "tensor"]),
                      "indep": rng.random() < 0.8, "seed": rng.randrange(1 << 30)})
    ev = common.tlc_eval("Optim_Eval", "Optim_Eval.cfg", cases, tag="decay")
    rep.states += ev["states"]
    rep.transitions += ev["transitions"]
    for c, e in zip(cases, ev["out"]):
        r2 = random.Random(c["seed"])
        specs = [("weight", [r2.choice([1, 3, 16, 64]), r2.choice([1, 4, 25, 256])], r2.choice([0, 0, 1, 4, 9])),
                 ("bias", [r2.choice([1, 5, 64])], 0), ("norm", [r2.choice([2, 32])], r2.choice([0, 7])),
                 ("output", [r2.choice([3, 10]), r2.choice([2, 128])], 0), ("weight", [4, 3, r2.choice([1, 3, 5])], 0)]
        ps = [Parameter(torch.randn(*s, dtype=torch.float64) + 2.0, t, d or None) for (t, s, d) in specs]
        before = [p.detach().clone() for p in ps]
        lr: Any = c["lr"] if c["lrkind"] == "float" else torch.tensor(c["lr"], dtype=torch.float64)
        wd = WD_VALUE[c["wdid"]]
        kw = {"readout_constraint": r2.choice([None, "to_output_scale"])} if c["opt"] == "SGD" else {}
        opt = getattr(O, c["opt"])(ps, lr=lr, weight_decay=wd, independent_weight_decay=c["indep"], **kw)
        for _ in range(c["steps"]):
            for p in ps:
                p.grad = torch.zeros_like(p)
            opt.step()
        rep.case(("decay", c["opt"], c["wdid"], c["steps"], c["lrkind"], c["indep"]))
        expf = Fraction(e["f2"][0], e["f2"][1])
        for (t, s, d), p, b in zip(specs, ps, before):
            ratio = (p.detach() / b)
            if c["indep"]:
                ok = bool(torch.all((ratio - float(expf)).abs() <= 1e-12))
                if not ok:
                    rep.violation(
                        f"{c['opt']} x{c['steps']} zero-grad step(s), weight_decay={wd}, lr={c['lr']:.4g} ({c['lrkind']}): parameter {t}{s} depth={d} scaled by {float(ratio.flatten()[0]):.12g}, spec DecayFactor = {expf} = {float(expf):.12g}",
                        {"case": c, "param": [t, s, d], "observed": float(ratio.flatten()[0]), "expected": [e["f2"][0], e["f2"][1]]},
                        key=f"decay:{c['opt']}:{t}",
                    )
                    break
            else:
                # passed through unchanged: group weight_decay must be the requested one
                g = [g for g in opt.param_groups if g["params"][0] is p][0]
                if abs(g["weight_decay"] - wd) > 1e-15:
                    rep.violation(f"independent_weight_decay=False but group weight_decay {g['weight_decay']} != {wd}", {"case": c}, key="passthrough")
                    break


def call_styles(rep: Report) -> None:
    """Beyond the listed property (its quantifier passes every option by keyword): the optimizer classes called the way
    torch.optim classes can be called -- further options positionally, named_parameters() as input.  Non-gating."""
    import unit_scaling as uu
    from unit_scaling import optim as O

    def params():
        torch.manual_seed(0)
        return uu.Linear(4, 3, bias=True)

    probes = [
        ("SGD(params, 0.1, 0.9): momentum given positionally", lambda m: O.SGD(m.parameters(), 0.1, 0.9), lambda o: o.param_groups[0].get("momentum") == 0.9),
        ("Adam(params, 0.1, (0.8, 0.9)): betas given positionally", lambda m: O.Adam(m.parameters(), 0.1, (0.8, 0.9)), lambda o: tuple(o.param_groups[0].get("betas")) == (0.8, 0.9)),
        ("AdamW(params, 0.1, (0.8, 0.9), 1e-6): betas and eps given positionally", lambda m: O.AdamW(m.parameters(), 0.1, (0.8, 0.9), 1e-6), lambda o: o.param_groups[0].get("eps") == 1e-6),
        ("SGD(model.named_parameters(), lr=0.1)", lambda m: O.SGD(m.named_parameters(), lr=0.1), lambda o: len(o.param_groups) == 2),
    ]
    for label, make, ok in probes:
        rep.case(("call_style", label))
        try:
            if not ok(make(params())):
                rep.beyond(f"uu.optim: {label}: the option is silently not honoured")
        except Exception as ex:
            rep.beyond(f"uu.optim: {label}: raised {type(ex).__name__}: {str(ex)[:100]} (torch.optim accepts this call)")


def run(rep: Report, tier: str) -> None:
    rng = random.Random(common.seed() * 101 + 5)
    quick = tier == "quick"
    cfg = "Optim_MC_loop1.cfg" if quick else "Optim_MC_loop.cfg"
    res = common.run_tlc("Optim_MC", cfg, coverage=True, timeout=900, tag="optloop")
    common.tlc_must_pass(res, "Optim_MC phase loop")
    rep.add_tlc(res)
    if quick:  # the full 2-group space without emission (invariants only)
        r2 = common.run_tlc("Optim_MC", "Optim_MC_loop_noemit.cfg", timeout=900, tag="optloop2")
        common.tlc_must_pass(r2, "Optim_MC phase loop (2 groups)")
        rep.add_tlc(r2, with_cov=False)
    for leg, cf in (("clone_only_tagged", "Optim_MC_loop_legacy1.cfg"), ("no_clone", "Optim_MC_loop_legacy2.cfg")):
        r = common.run_tlc("Optim_MC", cf, timeout=300, tag="optleg")
        common.tlc_must_fail(r, f"Optim_MC Legacy={leg}", "LoopC11")
        rep.extra.setdefault("l2_refuted_deviations", []).append({"legacy": leg, "violated": r.violated_invariant})
    emitted = res.printed("LOOP")
    if len(emitted) < 500:
        raise common.MachineryError(f"Optim_MC emitted only {len(emitted)} loop cases")
    rep.extra["cases_emitted_by_tlc"] = len(emitted)
    for rec in emitted:
        inp = norm_inp(rec["inp"])
        vias = ["scaled_parameters"] + ([rng.choice(["SGD", "AdamW", "Adam"])] if inp["glr"] != 0 and rng.random() < 0.3 else [])
        for via in vias:
            form = rng.choice(["groups", "groups", "groups_iter", "groups_tuple", "groups_gen"])
            got = run_real(inp, via, form)
            compare(rep, inp, rec["res"], rec["err"], got, via, form)
        if bare_ok(inp):
            form = rng.choice(["list", "gen"])
            got = run_real(inp, "scaled_parameters", form)
            compare(rep, inp, rec["res"], rec["err"], got, "scaled_parameters", form)
        rep.case(json.dumps(inp, sort_keys=True), nontrivial=len(rec["res"]) >= 2 or rec["err"] != "")
    # larger random inputs, evaluated point-wise by TLC
    big = random_inputs(rng, 300 if quick else 5000)
    ev = common.tlc_eval("Optim_Eval", "Optim_Eval.cfg", big, tag="loopeval")
    rep.states += ev["states"]
    rep.transitions += ev["transitions"]
    for inp, e in zip(big, ev["out"]):
        if not e["ok"] and e["err"] == "":
            raise common.MachineryError("Optim_Eval: inconsistent outcome")
        if e["ok"] and not e["c11"]:
            raise common.MachineryError("Optim_Eval: spec result violates C11OK (spec defect)")
        ninp = norm_inp(inp)
        for via in ["scaled_parameters", rng.choice(["SGD", "AdamW", "Adam"])]:
            if via != "scaled_parameters" and ninp["glr"] == 0:
                continue
            got = run_real(ninp, via)
            compare(rep, ninp, e["res"] if e["ok"] else [], e["err"], got, via, "groups")
        rep.case(json.dumps(ninp, sort_keys=True))
    decay_steps(rep, rng, 60 if quick else 600)
    rep.traces = rep.evaluations
    call_styles(rep)
    rep.rule = (
        "inputs = terminal states of Optim_MC phase loop emitted by TLC (quick: 1 group; thorough: <= 2 groups) + random inputs with 1-6 groups x 1-5 params "
        "evaluated point-wise by TLC; each run through scaled_parameters (groups, bare list, generator) and the optimizer classes; plus real zero-gradient steps; "
        "non-trivial = at least 2 result groups or an expected error"
    )
    for rec in emitted[:: max(1, len(emitted) // 3)][:3]:
        rep.sample(rec)
    rep.assumptions += ["projection identifies result parameters/tensors by id(); tagged parameters are 'weight' (4,4) so the Adam factor is 1/2"]


def replay(rep: Report, path: str) -> None:
    d = json.load(open(path))
    c = d["case"]
    if "inp" not in c:
        decay_steps(rep, random.Random(0), 5)
        rep.case("replay")
        rep.case("replay2")
        rep.traces = 1
        rep.sample(c)
        return
    inp = c["inp"]
    ev = common.tlc_eval("Optim_Eval", "Optim_Eval.cfg", [dict(inp, kind="loop")], tag="loopeval")
    rep.states += ev["states"]
    rep.transitions += ev["transitions"]
    e = ev["out"][0]
    got = run_real(inp, c["via"], c["form"])
    compare(rep, inp, e["res"] if e["ok"] else [], e["err"], got, c["via"], c["form"])
    rep.case("replay")
    rep.case(json.dumps(inp))
    rep.traces = 1
    rep.sample({"inp": inp, "expected": e, "observed": {k: got[k] for k in ("err", "res", "touched", "mutated")}})
