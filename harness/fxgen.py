"""Random torch.fx graphs built by hand (no tracing), and their projection to the
abstract graphs of spec/FxGraph.tla.  Shared by C15, C16, C18, C19."""
from __future__ import annotations

import operator
import random
from fractions import Fraction
from typing import Any, Callable, Dict, List, Optional, Tuple

import torch
import torch.nn.functional as F
from torch import fx, nn

SHAPE = (4, 8)   # numel a power of two: mean_abs denominators stay powers of two (small lcm in TLC)


def target_name(t: Any) -> str:
    if isinstance(t, str):
        return "m:" + t
    mod = getattr(t, "__module__", "") or ""
    name = getattr(t, "__name__", None) or repr(t)
    if mod.startswith("unit_scaling.functional"):
        return "U." + name
    if mod.startswith("unit_scaling"):
        return "uu." + name
    if mod in ("_operator", "operator"):
        return "op." + name
    if mod.startswith("torch.nn.functional") or mod == "torch._C._nn":
        return "F." + name
    return "torch." + name


def enc_arg(a: Any, ids: Dict[str, int]) -> Any:
    if isinstance(a, fx.Node):
        return ["n", ids[a.name]]
    if isinstance(a, (list, tuple)):
        return ["l", [enc_arg(x, ids) for x in a]]
    if a is None:
        return ["c", "None"]
    return ["c", repr(a)]


def rat(x: Optional[float]) -> List[int]:
    if x is None:
        return [-1, 1]
    fr = Fraction(x).limit_denominator(1 << 14)
    return [fr.numerator, fr.denominator]


def fx_to_abs(graph: fx.Graph, ids: Optional[Dict[str, int]] = None, with_metrics: bool = True) -> Tuple[List[Dict[str, Any]], Dict[str, int]]:
    """Project an FX graph. `ids` maps node names to ids (extended with fresh ids for unknown names)."""
    ids = dict(ids or {})
    nxt = max(ids.values(), default=0) + 1

    def key(n: fx.Node) -> str:
        # fx keeps node names across deepcopy EXCEPT the output node's, which is re-created under the default name ("output", or
        # "output_1" while a call node holds that name): the output node is identified by its kind, every other node by its name
        return "<output>" if n.op == "output" else n.name

    for n in graph.nodes:
        if key(n) not in ids:
            ids[key(n)] = nxt
            nxt += 1
    out = []
    for n in graph.nodes:
        rec: Dict[str, Any] = {
            "id": ids[key(n)],
            "op": {"call_function": "call", "call_method": "call", "call_module": "call"}.get(n.op, n.op),
            "tgt": target_name(n.target) if n.op != "output" else "output",
            "args": [enc_arg(a, ids) for a in n.args],
            "kw": [[k, enc_arg(v, ids)] for k, v in n.kwargs.items()],
        }
        if with_metrics:
            m = n.meta.get("metrics")
            rec["float"] = bool(n.meta.get("outputs_float_tensor", False))
            rec["req"] = bool(n.meta.get("requires_grad", False))
            rec["fwd"] = rat(m.fwd.mean_abs) if m is not None else [0, 1]
            rec["bwd"] = rat(m.bwd.mean_abs) if (m is not None and m.bwd is not None) else [-1, 1]
        out.append(rec)
    return out, ids


class Builder:
    """Grows a random graph over integer-valued float tensors of shape SHAPE."""

    def __init__(self, rng: random.Random, n_inputs: int = 1):
        self.rng = rng
        self.g = fx.Graph()
        self.root = nn.Module()
        self.floats: List[fx.Node] = []
        self.ints: List[fx.Node] = []    # python ints (sizes)
        self.idx: List[fx.Node] = []     # int64 index tensors of shape (4,)
        self.masks: List[fx.Node] = []   # bool tensors of SHAPE
        self.n_inputs = n_inputs
        for i in range(n_inputs):
            self.floats.append(self.g.placeholder(f"x{i}"))
        self.nparam = 0

    def pick(self) -> fx.Node:
        # bias towards recent nodes so graphs are deep, but allow fan-out
        if self.rng.random() < 0.6:
            return self.floats[-1]
        return self.rng.choice(self.floats)

    def param(self) -> fx.Node:
        self.nparam += 1
        name = f"w{self.nparam}"
        w = torch.randint(-2, 3, (8, 8), generator=torch.Generator().manual_seed(self.rng.randrange(1 << 30))).to(torch.float32)
        self.root.register_parameter(name, nn.Parameter(w))
        return self.g.get_attr(name)

    def add_op(self, vocab: List[str]) -> None:
        r, g = self.rng, self.g
        k = r.choice(vocab)
        a = self.pick()
        if k == "neg":
            self.floats.append(g.call_function(torch.neg, (a,)))
        elif k == "neg_kw":
            self.floats.append(g.call_function(torch.neg, (), {"input": a}))
        elif k == "reshape":
            self.floats.append(g.call_method("reshape", (a, 4, 8)))
        elif k == "reshape_size":
            s = g.call_method("size", (a, 0))
            self.ints.append(s)
            self.floats.append(g.call_method("reshape", (a, s, 8)))
        elif k == "flip":
            self.floats.append(g.call_function(torch.flip, (a, [0])))
        elif k == "mul2":
            self.floats.append(g.call_function(operator.mul, (a, 2)))
        elif k == "near1":   # scale changes by 2^-7 or 2^-9: inside some rtols (2^-2; 2^-8, 2^-2), outside others; with 32 elements the
            # mean keeps a denominator <= 2^14 (exactly representable in the projection), which 2^-11 did not
            self.floats.append(g.call_function(operator.mul, (a, r.choice([1.0078125, 1.001953125]))))
        elif k == "relu":
            self.floats.append(g.call_function(torch.relu, (a,)))
        elif k == "abs":
            self.floats.append(g.call_function(torch.abs, (a,)))
        elif k == "add":
            self.floats.append(g.call_function(operator.add, (a, self.pick())))
        elif k == "sub":
            self.floats.append(g.call_function(torch.sub, (a, self.pick())))
        elif k == "mul_kw":
            self.floats.append(g.call_function(torch.mul, (), {"input": a, "other": self.pick()}))
        elif k == "cat":
            c = g.call_function(torch.cat, ([a, self.pick()],), {"dim": 0})
            self.floats.append(g.call_function(operator.getitem, (c, slice(None, 4))))
        elif k == "cat_kwlist":     # the list of tensors itself passed by KEYWORD: torch.cat(tensors=[a, b], dim=0)
            c = g.call_function(torch.cat, (), {"tensors": [a, self.pick()], "dim": 0})
            self.floats.append(g.call_function(operator.getitem, (c, slice(None, 4))))
        elif k == "stack_kwlist":
            st = g.call_function(torch.stack, (), {"tensors": (a, g.call_function(torch.neg, (self.pick(),)))})
            self.floats.append(g.call_function(torch.sum, (st,), {"dim": 0}))
        elif k == "cat1":    # a list argument with a single tensor
            self.floats.append(g.call_function(torch.cat, ([a],), {"dim": 0}))
        elif k == "stack_sum":
            st = g.call_function(torch.stack, ([a, self.pick()],))
            self.floats.append(g.call_function(torch.sum, (st,), {"dim": 0}))
        elif k == "rotate_half":
            h1 = g.call_function(operator.getitem, (a, (slice(None), slice(None, 4))))
            h2 = g.call_function(operator.getitem, (a, (slice(None), slice(4, None))))
            self.floats.append(g.call_function(torch.cat, ([g.call_function(torch.neg, (h2,)), h1],), {"dim": -1}))
        elif k == "linear":
            self.floats.append(g.call_function(F.linear, (a, self.param())))
        elif k == "index":
            i = g.call_function(torch.argmax, (a,), {"dim": 1})
            self.idx.append(i)
            sel = g.call_function(torch.index_select, (self.pick(), 1, i))   # (4,4)
            self.floats.append(g.call_function(F.pad, (sel, (0, 4))))
        elif k == "index_kw":    # non-float node whose single float input arrives by KEYWORD
            i = g.call_function(torch.argmax, (), {"input": a, "dim": 1})
            self.idx.append(i)
            sel = g.call_function(torch.index_select, (self.pick(), 1, i))
            self.floats.append(g.call_function(F.pad, (sel, (0, 4))))
        elif k == "where_kw":
            m = g.call_function(torch.gt, (), {"input": a, "other": 0})
            self.masks.append(m)
            self.floats.append(g.call_function(torch.where, (m, self.pick(), self.pick())))
        elif k == "where":
            m = g.call_function(torch.gt, (a, 0))
            self.masks.append(m)
            self.floats.append(g.call_function(torch.where, (m, self.pick(), self.pick())))
        elif k == "detach_branch":   # a float tensor that receives no gradient
            d = g.call_method("detach", (a,))
            self.floats.append(g.call_function(operator.add, (self.pick(), d)))
        else:
            raise ValueError(k)

    def finish(self, n_out: int = 1, name_output: bool = False) -> fx.GraphModule:
        outs = [self.floats[-1]]
        if name_output and outs[0].op != "placeholder":
            outs[0]._rename("output")     # a call node NAMED "output" (what TorchDynamo does for `output = f(x)`); the output node becomes "output_1"
        while len(outs) < n_out:
            c = self.rng.choice(self.floats)
            if c not in outs:
                outs.append(c)
        self.g.output(tuple(outs))
        self.g.lint()
        return fx.GraphModule(self.root, self.g)


TRACK_VOCAB = ["neg", "neg_kw", "reshape", "reshape_size", "flip", "mul2", "near1", "near1", "near1", "relu", "abs", "add", "sub", "mul_kw", "cat", "cat1",
               "stack_sum", "rotate_half", "linear", "index", "index_kw", "where", "where_kw", "detach_branch", "cat_kwlist", "stack_kwlist"]


def random_tracked_module(rng: random.Random, n_ops: int, vocab: Optional[List[str]] = None, name_output: bool = False) -> Tuple[fx.GraphModule, int, int]:
    b = Builder(rng, n_inputs=rng.choice([1, 1, 2]))
    for _ in range(n_ops):
        b.add_op(vocab or TRACK_VOCAB)
    n_out = rng.choice([1, 1, 2])
    return b.finish(n_out, name_output), b.n_inputs, n_out


def int_inputs(rng: random.Random, n: int, with_zeros: bool = True) -> List[torch.Tensor]:
    g = torch.Generator().manual_seed(rng.randrange(1 << 30))
    xs = []
    for _ in range(n):
        x = torch.randint(-5, 6, SHAPE, generator=g).to(torch.float32)
        if not with_zeros:
            x = torch.where(x == 0, torch.ones_like(x), x)
        xs.append(x)
    return xs
