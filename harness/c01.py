"""C01 -- scaled functions equal their PyTorch counterparts up to one data-independent scalar.

L2: ScaledOps_MC (tables well-formed, memo machine rejects a data-dependent factor, C03 identities).
L3 (B): every op x configuration of the quantifier is called on real tensors (two data draws + a repeated call),
    compared element-wise with the torch reference (documented mult applied to the reference); the recorded
    call log (factor classes, flags) is validated by ScaledOps_Trace: memo machine (data independence),
    exact-1 ops, shape/dtype, argument immutability, rejection of unsupported arguments.
"""
from __future__ import annotations

import json
import random
from typing import Any, Dict, List

import torch

from . import common, fnlog, ops
from .common import Report


def l2(rep: Report) -> None:
    res = common.run_tlc("ScaledOps_MC", "ScaledOps_MC.cfg", coverage=True, timeout=600, tag="somc")
    common.tlc_must_pass(res, "ScaledOps_MC")
    rep.add_tlc(res)
    r = common.run_tlc("ScaledOps_MC", "ScaledOps_MC_leg.cfg", timeout=300, tag="somcleg")
    common.tlc_must_fail(r, "ScaledOps_MC Legacy=conv_drops_kernel", "UnitScaleOK")
    rep.extra.setdefault("l2_refuted_deviations", []).append({"legacy": "conv_drops_kernel", "violated": r.violated_invariant})


def extra_cfgs(rng: random.Random) -> List[Dict[str, Any]]:
    """Corners: frozen (no-grad) inputs so that in-place writes are not masked by autograd errors."""
    out = []
    for mn in (0.5, 1.0):
        for pidx in (None, 0):
            for bt in ([3], [2, 3], []):
                out.append({"op": "embedding", "batch": bt, "vocab": 5, "dim": 3, "padding_idx": pidx, "max_norm": mn, "frozen": True, "wscale": 2.0})
    # "all finite tensor values": large and tiny magnitudes, where low-precision intermediates over/underflow
    for op in ("layer_norm", "rms_norm"):
        for dt in ("f16", "bf16", "f32", "f64"):
            for sc in (1e-3, 300.0, 1000.0):
                out.append({"op": op, "batch": [2, 3], "norm_shape": [8], "affine": rng.random() < 0.5, "bias": True, "eps": 1e-5, "scale": sc, "dtype": dt})
    for op, extra in (("gelu", {"approximate": "none"}), ("silu", {})):
        for dt in ("f16", "bf16"):
            out.append({"op": op, "mult": 1.0, "constraint": None, "batch": [2], "n": 6, "scale": 50.0, "dtype": dt, **extra})
    for dt in ("f16", "bf16", "f32"):
        out.append({"op": "softmax", "mult": 1.0, "constraint": None, "batch": [2], "n": 6, "dim": -1, "scale": 30.0, "dtype": dt})
    return out


def known_finding_cfgs() -> List[Dict[str, Any]]:
    """Degenerate but valid sizes on which the pinned library raises (recorded as known findings, see known_findings.json):
    each carries its own violation key, so that any OTHER failure of the same op is still reported."""
    return [
        {"op": "scaled_dot_product_attention", "batch": [2], "heads": None, "seq": 1, "d_head": 2, "mult": 1.0, "is_causal": True, "mask": None, "dropout_p": None,
         "_kf": "sdpa_causal_seq_len_1"},
        {"op": "cross_entropy", "vocab": 1, "batch_size": 3, "reduction": "mean", "mult": 1.0, "n_ignored": 0, "ignore_index": -100, "scale": 1.0, "_kf": "cross_entropy_one_class"},
    ]


def validate_wrapper(rep: Report) -> None:
    """Growth item: the _validate wrapper itself (spec/Validate.tla): every way of binding an unsupported argument
    (by position or by keyword, default or not) on a synthetic signature emitted by TLC, plus the real ops with the
    unsupported argument passed POSITIONALLY."""
    import unit_scaling.functional as U
    from unit_scaling.docs import _validate

    res = common.run_tlc("Validate_MC", "Validate_MC.cfg", coverage=True, timeout=300, tag="valmc")
    common.tlc_must_pass(res, "Validate_MC")
    rep.add_tlc(res)
    r = common.run_tlc("Validate_MC", "Validate_MC_leg.cfg", timeout=300, tag="valleg")
    common.tlc_must_fail(r, "Validate Legacy=keywords_only", "RejectExactly")
    rep.extra.setdefault("l2_refuted_deviations", []).append({"legacy": "keywords_only", "violated": r.violated_invariant})

    def target(input, mult=1.0, flag=False, mode="a"):
        return (input, mult, flag, mode)

    defaults = {"input": 0, "mult": 1.0, "flag": False, "mode": "a"}
    others = {"input": 7, "mult": 2.5, "flag": True, "mode": "b"}
    names = ["input", "mult", "flag", "mode"]
    calls = res.printed("VCALL")
    if len(calls) < 100:
        raise common.MachineryError(f"Validate_MC emitted only {len(calls)} calls")
    r2 = common.run_tlc("Validate_MC", "Validate_MC_leg2.cfg", timeout=300, tag="valleg2")
    common.tlc_must_fail(r2, "Validate Legacy=falsy_is_off", "RejectExactly")
    rep.extra.setdefault("l2_refuted_deviations", []).append({"legacy": "falsy_is_off", "violated": r2.violated_invariant})
    # "falsy": a non-default value that is None / False / 0 / empty -- every such Python value that differs from the default
    FALSY: List[Any] = [None, False, 0.0, ""]

    def bind(name: str, v: str, fv: Any) -> Any:
        return defaults[name] if v == "default" else others[name] if v == "other" else fv

    for c in calls:
        uns = list(c["unsupported"])
        f = _validate(target, uns)
        kwi = list(c["kw"].items()) if isinstance(c["kw"], dict) else []
        has_falsy = "falsy" in list(c["pos"]) + [v for _, v in kwi]
        for fv in (FALSY if has_falsy else [None]):
            if has_falsy and any(v == "falsy" and fv == defaults[n] for n, v in list(zip(names, c["pos"])) + kwi):
                continue  # e.g. 0.0 == False: that IS the default of `flag`
            pos = [bind(names[i], v, fv) for i, v in enumerate(c["pos"])]
            kw = {k: bind(k, v, fv) for k, v in kwi}
            try:
                f(*pos, **kw)
                raised = False
            except ValueError:
                raised = True
            rep.case(("vcall", json.dumps(c, sort_keys=True), repr(fv) if has_falsy else ""), nontrivial=bool(uns))
            if raised != c["reject"]:
                rep.violation(f"_validate(unsupported={uns}) called with positional {c['pos']} keywords {c['kw']} (falsy value {fv!r}): raised={raised}, spec MustReject={c['reject']}",
                              {"vcall": c, "falsy": repr(fv)}, key=f"validate_wrapper:{'missed' if c['reject'] else 'spurious'}")
    x = torch.randn(3, 4)
    positional = [
        ("silu inplace positional", lambda: U.silu(x, 1.0, "to_output_scale", True)),
        ("dropout inplace positional", lambda: U.dropout(x, 0.25, True, True)),
        ("add alpha positional", lambda: U.add(x, x, None, 2)),
        ("embedding scale_grad_by_freq positional", lambda: U.embedding(torch.tensor([0, 1]), torch.randn(3, 2), None, None, 2.0, True)),
        ("embedding sparse positional", lambda: U.embedding(torch.tensor([0, 1]), torch.randn(3, 2), None, None, 2.0, False, True)),
        ("cross_entropy weight positional", lambda: U.cross_entropy(torch.randn(2, 3), torch.tensor([0, 1]), torch.ones(3))),
        ("mse_loss size_average positional", lambda: U.mse_loss(x, x, True)),
        ("mse_loss size_average=False positional (default None: False asks for a sum)", lambda: U.mse_loss(x, x, False)),
        ("mse_loss reduce=False positional", lambda: U.mse_loss(x, x, None, False)),
        ("cross_entropy size_average=False positional", lambda: U.cross_entropy(torch.randn(2, 3), torch.tensor([0, 1]), None, False)),
        ("add alpha=0 positional (default 1)", lambda: U.add(x, x, None, 0)),
    ]
    for label, fn in positional:
        rep.case(("positional", label))
        try:
            fn()
            rep.violation(f"unsupported argument passed positionally was accepted: {label}", {"positional": label}, key="unsupported_positional_accepted")
        except ValueError:
            pass
        except Exception as ex:
            rep.violation(f"unsupported argument passed positionally: {label}: raised {type(ex).__name__} instead of the library's rejection", {"positional": label, "error": str(ex)[:160]}, key="unsupported_positional_other_error")


def validate(rep: Report, events: List[List[Any]], cfg_of: Dict[int, Dict[str, Any]], pid: str) -> None:
    B = 200000
    for i in range(0, len(events), B):
        batch = events[i : i + B]
        r = common.validate_traces("ScaledOps_Trace", "ScaledOps_Trace.cfg", batch, timeout=1200, tag="sotr")
        rep.add_trace_result(r)
        for (l, clause) in r["fails"]:
            e = batch[l - 1]
            cfg = cfg_of.get(e[2], {})
            rep.violation(f"{e[1]} event rejected by ScaledOps_Trace: {clause} (slot={e[3] or 'out'}, class={e[4]}, flags={e[5:11]}, cfg={json.dumps(cfg, default=str)})",
                          {"event": e, "clause": clause, "cfg": cfg}, key=(f"kf:{cfg['_kf']}:{clause}" if cfg.get("_kf") else f"{clause}:{e[1]}:{e[3]}"))


def run(rep: Report, tier: str) -> None:
    rng = random.Random(common.seed() * 29 + 4)
    torch.manual_seed(common.seed())
    torch.set_num_threads(4)
    l2(rep)
    cfgs = ops.configs_deep(rng, tier) + extra_cfgs(rng) + known_finding_cfgs()
    classes = fnlog.Classes()
    events: List[List[Any]] = []
    cfg_of: Dict[int, Dict[str, Any]] = {}
    cids = fnlog.family_ids(cfgs)
    for cid, cfg in zip(cids, cfgs):
        cfg_of.setdefault(cid, cfg)
        ev, raw = fnlog.events_for_cfg(cid, cfg, True, False, classes, draws=((0, 0), (1, 0), (0, 0)))
        events += ev
        rep.case((cfg["op"], json.dumps(cfg, sort_keys=True, default=str)), nontrivial=cfg["op"] not in ops.EXACT1 or True)
    hist_ev = fnlog.other_history_events(cfgs, cids, True, False, classes) if tier == "quick" else []
    events += hist_ev
    events.sort(key=lambda e: e[2])     # stable: per configuration id, this process's events first, then the other history's
    rep.extra["events_from_the_reverse_order_history"] = len(hist_ev)
    eev, ecfgs = fnlog.error_events(len(cfgs) + 1, rng)
    for i, c in enumerate(ecfgs):
        cfg_of[len(cfgs) + 1 + i] = c
        rep.case(("err", json.dumps(c, sort_keys=True, default=str)))
    events += eev
    validate(rep, events, cfg_of, "C01")
    validate_wrapper(rep)
    rep.extra["events"] = len(events)
    rep.extra["ops_covered"] = sorted({c["op"] for c in cfgs})
    rep.rule = ("configurations: every op of the functional namespace x batch ranks 0-3 x hyperparameters x every constraint name x dtypes (a slice in f32/bf16/f16) + every unsupported "
                "argument / invalid reduction / bad rank / unknown constraint; two data draws and one repeated call each; distinct_nontrivial = distinct configurations")
    for e in events[:: max(1, len(events) // 4)][:4]:
        rep.sample({"event": e, "cfg": cfg_of.get(e[2])})
    rep.assumptions += ["reference = torch / torch.nn.functional on identical tensors with the documented mult applied; residual / class tolerance by dtype "
                        "(f64 1e-9; rms_norm 5e-6 because its statistic is computed in float32; f32 2e-4; f16 2e-2; bf16 6e-2)"]


def replay(rep: Report, path: str) -> None:
    d = json.load(open(path))
    cfg = {k: v for k, v in d["case"]["cfg"].items() if k != "expect"}
    classes = fnlog.Classes()
    if "expect" in d["case"]["cfg"]:
        o = ops.probe(cfg, 0, backward=False)
        kind, _, arg = d["case"]["cfg"]["expect"].partition(":")
        ev = [["err", cfg["op"], 1, arg, 0, int(o["err"] is not None), 0, 0, 0, 0, 0, kind]]
    else:
        ev, _ = fnlog.events_for_cfg(1, cfg, True, False, classes, draws=((0, 0), (1, 0), (0, 0)))
    rep.case("replay")
    rep.case(json.dumps(cfg, default=str))
    rep.sample(ev[:2])
    validate(rep, ev, {1: d["case"]["cfg"]}, "C01")
