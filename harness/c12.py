"""C12 -- width-independent updates: one Adam step moves every output by exactly lr.

L2: Optim_MC phase "lr" invariant WidthIndependent (identity OutScale2 * LrFactor2 * terms^2 = 1/depth
    on the small exhaustive space) -- the cross-module identity of the three parts.
L3 (A): TLC evaluates UpdateSize2 point-wise (Optim_Eval) for seeded layer configurations; the harness
    performs one real Adam/AdamW step (eps=0, float64) on a real Linear / LinearReadout / Conv1d layer
    with +-1 inputs and compares every output coordinate's move with eta * sqrt(UpdateSize2).
"""
from __future__ import annotations

import json
import math
import random
from fractions import Fraction
from typing import Any, Dict, List

import torch

from . import common
from .common import Report


def one_step(c: Dict[str, Any]) -> Dict[str, Any]:
    """One real optimizer step; a library exception on these valid inputs is an observation ({"err": ...}), not a harness failure."""
    try:
        return _one_step(c)
    except Exception as ex:
        return {"err": f"{type(ex).__name__}: {str(ex)[:160]}"}


def _one_step(c: Dict[str, Any]) -> Dict[str, Any]:
    import unit_scaling as uu
    from unit_scaling import optim as O

    g = torch.Generator().manual_seed(c["seed"])
    kind, fi, fo, k, depth = c["layer"], c["fanIn"], c["fanOut"], c["k"], c["depth"]
    kw: Dict[str, Any] = {}
    if c["constraint"] != "default":
        kw["constraint"] = None
    if kind == "linear":
        layer = uu.Linear(fi, fo, dtype=torch.float64, **kw)
    elif kind == "readout":
        layer = uu.LinearReadout(fi, fo, dtype=torch.float64, **kw)
    else:   # fanIn is the fan-in of ONE output channel (weight.shape[1]); with groups the layer has groups x fanIn input channels
        gr = c.get("groups", 1)
        layer = uu.Conv1d(fi * gr, fo, k, groups=gr, dtype=torch.float64, **kw)
    with torch.no_grad():
        layer.weight.copy_(torch.randn(layer.weight.shape, generator=g, dtype=torch.float64))
    if depth > 0:   # depth = number of layers of the depth container, however the container is built
        from collections import OrderedDict

        others = [uu.Linear(1, 1) for _ in range(depth - 1)]
        how = c.get("container", "seq_args")
        mods = [layer] + others
        if how == "seq_args":
            uu.DepthSequential(*mods)
        elif how == "seq_dict":
            uu.DepthSequential(OrderedDict((f"l{i}", m) for i, m in enumerate(mods)))
        elif how == "cloned_then_copied":     # the usual idiom: N clones of one block, then a copy of the model (EMA copy, per-run copy)
            import copy as _copy

            clones = [_copy.deepcopy(layer) for _ in range(depth)]
            model = _copy.deepcopy(uu.DepthSequential(*clones))
            layer = model[0]
        elif how == "list":
            uu.DepthModuleList(mods)
        else:
            uu.DepthModuleList(m for m in mods)
    sign = lambda shape: (torch.randint(0, 2, shape, generator=g).to(torch.float64) * 2 - 1)
    x = sign((1, fi * c.get("groups", 1), k)) if kind == "conv1d" else sign((1, fi))
    if c.get("unbatched", (fi + fo + k) % 3 == 0):
        x = x[0]        # one UNBATCHED example, (channels, length) / (features,): torch.nn and the unit-scaled layers accept it; dim 1 is then the length
    # how the layer reaches the optimizer: alone, or in explicit groups together with other (wider / deeper) layers --
    # its update must not depend on the company it keeps
    form = c.get("form", "plain")
    company = [uu.Linear(256, 8, dtype=torch.float64), uu.LinearReadout(5, 3, dtype=torch.float64)]
    uu.DepthSequential(uu.Linear(7, 7, dtype=torch.float64), company[0])
    cp = [p for m in company for p in m.parameters()]
    lp = list(layer.parameters())
    params: Any = {"plain": lp, "group_after": [{"params": cp + lp}], "group_before": [{"params": lp + cp}],
                   "two_groups": [{"params": cp}, {"params": lp}], "tensor_lr_group": [{"params": cp + lp}]}[form]
    lr: Any = torch.tensor(c["eta"], dtype=torch.float64) if form == "tensor_lr_group" else c["eta"]
    okw: Dict[str, Any] = {}
    if c.get("allow"):      # a model mixing unit-scaled layers with plain torch parameters: the flag only switches off the tag check
        plain = torch.nn.Parameter(torch.zeros(3, dtype=torch.float64))
        params = (list(params) + [plain]) if form == "plain" else (params + [{"params": [plain]}])
        okw["allow_non_unit_scaling_params"] = True
    opt = getattr(O, c["opt"])(params, lr=lr, eps=0.0, weight_decay=0.0, **okw)
    out0 = layer(x)
    up = torch.randn(out0.shape, generator=g, dtype=torch.float64)
    up = torch.where(up.abs() < 1e-3, torch.ones_like(up), up)  # no zero entries
    out0.backward(up)
    opt.step()
    with torch.no_grad():
        out1 = layer(x)
    delta = (out1 - out0.detach()).reshape(-1)
    want_sign = -torch.sign(up.reshape(-1))
    return {"abs": delta.abs().tolist(), "sign_ok": bool(torch.all(torch.sign(delta) == want_sign))}


def gen_cases(rng: random.Random, n: int) -> List[Dict[str, Any]]:
    out = []
    widths = [1, 2, 3, 5, 16, 64, 100, 256, 1024, 4096]
    for _ in range(n):
        kind = rng.choice(["linear", "readout", "conv1d"])
        fi = rng.choice(widths) if rng.random() < 0.7 else rng.randint(1, 4096)
        fo = rng.choice(widths) if rng.random() < 0.7 else rng.randint(1, 4096)
        k = rng.randint(1, 9) if kind == "conv1d" else 1
        if fi * fo * k > 1 << 22:
            fo = max(1, (1 << 22) // (fi * k))
        depth = rng.choice([0, 0, 1, 2, 3, 16, 64, rng.randint(1, 64)])
        if fi * k * max(depth, 1) >= 1 << 24:
            depth = 0
        groups = 1
        if kind == "conv1d" and rng.random() < 0.5:
            groups = rng.choice([2, 3, 4])
            fo = max(groups, (fo // groups) * groups)        # out_channels divisible by groups
            fi = max(1, fi // groups)                        # per-group fan-in
        out.append({"kind": "update", "layer": kind, "fanIn": fi, "fanOut": fo, "k": k, "depth": depth, "groups": groups,
                    "eta": 10 ** rng.uniform(-4, 0), "opt": rng.choice(["Adam", "AdamW"]),
                    "constraint": rng.choice(["default", "none"]), "seed": rng.randrange(1 << 30),
                    "form": rng.choice(["plain", "plain", "group_after", "group_before", "two_groups", "tensor_lr_group"]),
                    "container": rng.choice(["seq_args", "seq_dict", "list", "generator", "cloned_then_copied"]), "allow": rng.random() < 0.3})
    return out


def judge(rep: Report, c: Dict[str, Any], e: Dict[str, Any], obs: Dict[str, Any]) -> None:
    f2 = Fraction(e["f2"][0], e["f2"][1])
    want = c["eta"] * math.sqrt(float(f2))
    if obs.get("err"):
        rep.violation(f"building the layer / one optimizer step raised {obs['err']} for {c['layer']} fan_in={c['fanIn']} fan_out={c['fanOut']} k={c['k']} groups={c.get('groups', 1)} depth={c['depth']} {c['opt']}",
                      {"case": c, "err": obs["err"]}, key=f"raised:{c['layer']}")
        return
    worst = max(abs(a - want) / want for a in obs["abs"])
    label = f"[{c.get('form', 'plain')}{', allow_non_unit_scaling_params' if c.get('allow') else ''}, depth via {c.get('container', 'seq_args')}] {c['layer']} fan_in={c['fanIn']} fan_out={c['fanOut']} k={c['k']} groups={c.get('groups', 1)} depth={c['depth']} eta={c['eta']:.4g} {c['opt']} constraint={c['constraint']}"
    if worst > 1e-9 or not obs["sign_ok"]:
        rep.violation(
            f"output moved by {obs['abs'][0] / c['eta']:.9g} x eta (worst rel. deviation {worst:.3g}); spec UpdateSize2 = {f2} i.e. {math.sqrt(float(f2)):.9g} x eta for {label}",
            {"case": c, "expected_f2": e["f2"], "observed_abs_over_eta": [a / c["eta"] for a in obs["abs"][:8]], "sign_ok": obs["sign_ok"]},
            key=f"update:{c['layer']}",
        )


def run(rep: Report, tier: str) -> None:
    rng = random.Random(common.seed() * 53 + 11)
    torch.manual_seed(common.seed())
    res = common.run_tlc("Optim_MC", "Optim_MC_lr_noemit.cfg", coverage=True, timeout=600, tag="optlr12")
    common.tlc_must_pass(res, "Optim_MC phase lr (WidthIndependent)")
    rep.add_tlc(res)
    cases = gen_cases(rng, 150 if tier == "quick" else 1500)
    # the small exhaustive corner as well: every width 1..8 x kernel 1..3 x depth {0,1,2}
    if tier != "quick":
        for kind in ("linear", "readout", "conv1d"):
            for fi in range(1, 9):
                for fo in (1, 2, 5):
                    for k in ((1, 2, 3) if kind == "conv1d" else (1,)):
                        for depth in (0, 1, 2, 5):
                            cases.append({"kind": "update", "layer": kind, "fanIn": fi, "fanOut": fo, "k": k, "depth": depth, "eta": 0.01,
                                          "opt": "Adam", "constraint": "default", "seed": len(cases)})
    ev = common.tlc_eval("Optim_Eval", "Optim_Eval.cfg", cases, tag="upd")
    rep.states += ev["states"]
    rep.transitions += ev["transitions"]
    for c, e in zip(cases, ev["out"]):
        obs = one_step(c)
        judge(rep, c, e, obs)
        rep.case((c["layer"], c["fanIn"], c["fanOut"], c["k"], c["depth"], c["opt"], c["constraint"]), nontrivial=c["fanIn"] * c["k"] > 1)
    rep.traces = rep.evaluations
    rep.rule = "seeded layer configurations (widths to 4096, kernel 1-9, depth None/1..64, eta log-uniform in [1e-4,1], Adam/AdamW, default/no constraint, parameters given plainly / in one explicit group before or after other layers / in two groups / with a tensor lr); one real optimizer step each; non-trivial = more than one summed term"
    rep.sample({"case": cases[0], "spec_UpdateSize2": ev["out"][0]})
    rep.assumptions += ["relative tolerance 1e-9 on |delta out| in float64", "depth d is realised by a DepthSequential of d layers"]


def replay(rep: Report, path: str) -> None:
    d = json.load(open(path))
    c = d["case"]["case"]
    ev = common.tlc_eval("Optim_Eval", "Optim_Eval.cfg", [c], tag="upd")
    rep.states += ev["states"]
    rep.transitions += ev["transitions"]
    judge(rep, c, ev["out"][0], one_step(c))
    rep.case("replay")
    rep.case(json.dumps(c))
    rep.traces = 1
    rep.sample(c)
