"""Shared by C13/C14/C15: inputs for FPFormat.quantise and event encoding."""
from __future__ import annotations

import random
from typing import List, Tuple

import numpy as np
import torch

INF = 0x7F800000


def fmt_values(E: int, M: int, cap: int, rng: random.Random) -> np.ndarray:
    """Representable non-negative values of format (E,M) as float64 (all, or a
    sample of `cap` incl. extremes).  Independent enumeration: code k of the
    format is (exponent code e, mantissa m)."""
    ncodes = (1 << E) * (1 << M)
    if ncodes <= cap:
        codes = np.arange(ncodes, dtype=np.int64)
    else:
        base = {0, 1, 2, (1 << M) - 1, 1 << M, (1 << M) + 1, ncodes - 1, ncodes - 2, ncodes - (1 << M), ncodes - (1 << M) - 1}
        while len(base) < cap:
            base.add(rng.randrange(ncodes))
        codes = np.array(sorted(c for c in base if 0 <= c < ncodes), dtype=np.int64)
    e = codes >> M
    m = codes & ((1 << M) - 1)
    bias = 1 << (E - 1)
    sub = e == 0
    val = np.where(
        sub,
        np.ldexp(m.astype(np.float64), 1 - bias - M),
        np.ldexp((m + (1 << M)).astype(np.float64), e - bias - M),
    )
    return val


def next_code_value(E: int, M: int, v: np.ndarray) -> np.ndarray:
    """The next representable value above v (v representable, float64); max stays."""
    bias = 1 << (E - 1)
    mant, ex = np.frexp(v)  # v = mant * 2^ex, mant in [0.5,1)
    e_unb = ex - 1
    e_unb = np.maximum(e_unb, 1 - bias)  # subnormal spacing
    e_unb = np.where(v == 0, 1 - bias, e_unb)
    step = np.ldexp(1.0, (e_unb - M).astype(np.int64))
    nxt = v + step
    vmax = 2.0 ** (bias - 1) * (2 - 2.0 ** -M)
    return np.minimum(nxt, vmax)


def is_f32(v: np.ndarray) -> np.ndarray:
    with np.errstate(over="ignore"):
        return v.astype(np.float32).astype(np.float64) == v


def inputs_for_format(E: int, M: int, rng: random.Random, n_vals: int, n_rand_per_exp: int) -> np.ndarray:
    """float32 magnitudes (as uint32 patterns) per the C13 quantifier."""
    vals = fmt_values(E, M, n_vals, rng)
    nxt = next_code_value(E, M, vals)
    mids = (vals + nxt) / 2
    cand = np.concatenate([vals, mids])
    cand = cand[is_f32(cand)]
    pats = cand.astype(np.float32).view(np.uint32).astype(np.int64)
    # +-4 ulp float32 neighbours
    neigh = [pats + d for d in range(-4, 5)]
    pats = np.concatenate(neigh)
    # random mantissas per float32 exponent
    exps = np.arange(0, 255, dtype=np.int64)
    rnd = []
    nprng = np.random.default_rng(rng.randrange(1 << 30))
    for _ in range(n_rand_per_exp):
        rnd.append((exps << 23) | nprng.integers(0, 1 << 23, size=exps.shape))
    vmax = 2.0 ** ((1 << (E - 1)) - 1) * (2 - 2.0 ** -M)
    specials = np.array(
        [0, 1, 2, 3, INF, INF - 1, 0x00800000, 0x007FFFFF, 0x3F800000]
        + ([int(np.float32(vmax).view(np.uint32))] if vmax < 3.4e38 else []),
        dtype=np.int64,
    )
    pats = np.concatenate([pats, specials] + rnd)
    pats = pats[(pats >= 0) & (pats <= INF)]
    if E == 8:
        pats = pats[pats < ((126 + 127) << 23)]  # |x| < 2^126
    return np.unique(pats)


def to_tensor(pats: np.ndarray, negate_odd: bool = True) -> torch.Tensor:
    """int64 magnitude patterns -> float32 tensor, alternating signs."""
    p = pats.astype(np.int64).copy()
    if negate_odd:
        p[1::2] |= 0x80000000
    return torch.from_numpy(p.astype(np.uint32).view(np.float32).copy())


def bits(t: torch.Tensor) -> Tuple[np.ndarray, np.ndarray]:
    """float32 tensor -> (sign bits, magnitude patterns) as int64 arrays."""
    b = t.detach().contiguous().view(torch.int32).numpy().astype(np.int64) & 0xFFFFFFFF
    return (b >> 31) & 1, b & 0x7FFFFFFF


ALL_FORMATS: List[Tuple[int, int]] = [(E, M) for E in range(2, 9) for M in range(0, 24)]
