"""C20 -- eager and torch.compile execution of scaled ops agree (fx: forward values).

L2: ScaledOps_MC (the memo machine keys a factor class by (configuration, slot) only: the execution mode is not part of
    the key, so one configuration observed in two modes with different classes is rejected).
L3 (A+B): the C01/C02 configurations, every public module, and random compositions of 2-6 unit-scaled ops are executed
    eagerly and under torch.compile (quick: aot_eager; thorough: + inductor), through fx.symbolic_trace (forward values,
    where the op is symbolically traceable) and through the library's leaf-wrapping tracer (gradients). Events of all
    modes of one configuration go through ScaledOps_Trace with the SAME configuration id (same factor classes as eager),
    plus element-wise closeness to the eager run with a dtype-scaled bound (float64: 1e-12).
"""
from __future__ import annotations

import json
import math
import random
from collections import OrderedDict
from typing import Any, Callable, Dict, List, Optional, Tuple

import torch
from torch import fx, nn

from . import common, fnlog, ops
from .common import Report
from .c01 import validate

# ops whose every sampled configuration plain torch.fx could trace on the pinned tree (the others use len()/iteration/control
# flow on tensors in Python and are outside the fx clause); an op of this set that stops being traceable violates the fx clause
FX_TRACEABLE_AT_PIN = {"dropout", "gelu", "layer_norm", "linear", "linear_readout", "matmul", "silu", "silu_glu", "softmax"}


def fx_expected(cfg: Dict[str, Any]) -> bool:
    """The mean rules call math.* on the scales, which are Proxies when they depend on a traced shape: not traceable."""
    return cfg["op"] in FX_TRACEABLE_AT_PIN and cfg.get("constraint", "__default__") not in ("gmean", "hmean", "amean")


CLOSE = {"f64": 1e-12, "f32": 2e-5, "bf16": 4e-2, "f16": 1e-2}


def make_runner(mode: str) -> Callable:
    def runner(fn, ins):
        names = list(ins.keys())
        tens = [ins[k] for k in names]

        def g(*ts):
            return fn(OrderedDict(zip(names, ts)))

        if mode in ("aot_eager", "inductor"):
            torch._dynamo.reset()
            return torch.compile(g, backend=mode, fullgraph=False)(*tens)
        if mode == "leaf_tracer":
            from unit_scaling.utils import _DeepTracer

            class W(nn.Module):
                def forward(self, *ts):
                    return g(*ts)

            # fx needs a fixed arity
            src = "def forward(self, " + ", ".join(f"a{i}" for i in range(len(tens))) + "):\n    return self._g(" + ", ".join(f"a{i}" for i in range(len(tens))) + ")\n"
            ns: Dict[str, Any] = {}
            exec(src, ns)
            Wn = type("Wn", (nn.Module,), {"forward": ns["forward"], "_g": staticmethod(g)})
            w = Wn()
            tr = _DeepTracer()
            graph = tr.trace(w)
            gm = fx.GraphModule(tr.root, graph)
            return gm(*tens)
        if mode == "fx_forward":
            src = "def forward(self, " + ", ".join(f"a{i}" for i in range(len(tens))) + "):\n    return self._g(" + ", ".join(f"a{i}" for i in range(len(tens))) + ")\n"
            ns = {}
            exec(src, ns)
            Wn = type("Wn", (nn.Module,), {"forward": ns["forward"], "_g": staticmethod(g)})
            gm = fx.symbolic_trace(Wn())
            return gm(*tens)
        return g(*tens)

    return runner


def raw_run(cfg: Dict[str, Any], mode: str, backward: bool):
    """Outputs and gradients themselves (for element-wise closeness)."""
    b = ops.build(cfg, 0)
    ins = OrderedDict((k, (v.clone().requires_grad_(True) if (k in b.diff and v.is_floating_point()) else v.clone())) for k, v in b.inputs.items())
    if b.seed_rng:
        torch.manual_seed(12345)
    out = make_runner(mode)(b.u, ins) if mode != "eager" else b.u(ins)
    grads = None
    if backward and out.requires_grad:
        up = torch.randn(tuple(out.shape), generator=torch.Generator().manual_seed(5), dtype=torch.float64).to(out.dtype)
        gs = torch.autograd.grad(out, [ins[k] for k in b.diff if ins[k].requires_grad], up, allow_unused=True)
        grads = [None if g is None else g.detach().clone() for g in gs]
    return out.detach().clone(), grads


def close(a: torch.Tensor, b: torch.Tensor, tol: float) -> bool:
    if a.shape != b.shape or a.dtype != b.dtype:
        return False
    a64, b64 = a.double(), b.double()
    if bool((torch.isnan(a64) != torch.isnan(b64)).any()):
        return False
    m = torch.isfinite(a64) & torch.isfinite(b64)
    if not bool(m.any()):
        return True
    scale = max(float(b64[m].abs().max()), 1e-30)
    return bool(((a64[m] - b64[m]).abs() <= tol * scale).all())


def pick_cfgs(rng: random.Random, n: int) -> List[Dict[str, Any]]:
    """One float64 configuration for every (op, discrete hyper-parameter variant) -- a tracing branch typically drops or
    mis-forwards ONE non-default argument -- plus random extras in the other dtypes up to n."""
    allc = [c for c in ops.configs(rng, "quick") if "dtype" not in c and not (c["op"] == "dropout" and c["p"] > 0 and c["training"])
            and not (c["op"] == "scaled_dot_product_attention" and c.get("dropout_p"))]
    # dropout with p>0 in training mode: eager and compiled RNG streams differ by design of torch
    def variant(c):
        return (c["op"], c.get("approximate"), c.get("is_causal"), c.get("mask"), c.get("reduction"), c.get("affine"), c.get("training"),
                c.get("padding_idx") is None, c.get("scalar") is None, bool(c.get("n_ignored")), bool(c.get("prob_target")), c.get("bias", None), c.get("heads") is None,
                # hyper-parameters that select a Python branch of the library: the class of the constraint (identity / selection / mean on
                # possibly traced values), mult == 1, max_norm, groups, cross-attention shapes, 1-D matmul operands
                {"__default__": "default", None: "none"}.get(c.get("constraint", "__default__"), "mean" if str(c.get("constraint")).endswith("mean") else "select"),
                c.get("mult", 1.0) == 1.0, c.get("max_norm") is None, c.get("groups", 1) > 1, "seq_kv" in c, c.get("vec"),
                # add: how a one-element operand is spelt (0-dimensional, or rank >= 1 with one element)
                tuple(sorted("rank0" if sh == [] else "one_elem" if all(d == 1 for d in sh) else "many" for sh in (c.get("sa"), c.get("sb")) if sh is not None)) if c["op"] == "add" else None)
    groups: Dict[Any, List[Dict[str, Any]]] = {}
    for c in allc:
        groups.setdefault(variant(c), []).append(c)
    out = [dict(rng.choice(v), dtype="f64") for k, v in sorted(groups.items(), key=lambda kv: repr(kv[0]))]
    while len(out) < n:
        out.append(dict(rng.choice(allc), dtype=rng.choice(["f64", "f32", "bf16"])))
    return out


# ---- compositions of 2-6 unit-scaled ops / modules
def composition(rng: random.Random) -> Tuple[Callable, torch.dtype, str]:
    """Returns make(dtype) -> (f, tensors): the SAME composition (steps, weights, input drawn once in float64 and cast)
    in any precision, so that eager float32 and eager float64 runs can calibrate how well-conditioned it is."""
    import unit_scaling as uu
    import unit_scaling.functional as U

    dt0 = rng.choice([torch.float64, torch.float32])
    seed = rng.randrange(1 << 20)
    steps = [rng.choice(["gelu", "silu", "linear", "softmax", "ln", "rms", "res", "add", "dropout0", "glu", "attn", "module"]) for _ in range(rng.randint(2, 6))]
    rng_tail = rng.random() < 0.5

    def make(dt: torch.dtype):
        torch.manual_seed(seed)
        ws = [torch.randn(8, 8, dtype=torch.float64).to(dt).requires_grad_() for _ in range(3)]
        mods = [uu.Linear(8, 8, bias=True, dtype=torch.float64).to(dt), uu.MLP(8, 2).to(torch.float64).to(dt), uu.LayerNorm(8, elementwise_affine=True, dtype=torch.float64).to(dt)]
        x = torch.randn(2, 4, 8, dtype=torch.float64).to(dt).requires_grad_()

        def f(x, w0, w1, w2):
            h = x
            for i, s in enumerate(steps):
                if s == "gelu":
                    h = U.gelu(h, mult=1.5, constraint=None)
                elif s == "silu":
                    h = U.silu(h)
                elif s == "linear":
                    h = U.linear(h, w0, None, constraint="gmean")
                elif s == "softmax":
                    h = U.softmax(h, dim=-1, mult=0.5, constraint="to_grad_input_scale")
                elif s == "ln":
                    h = U.layer_norm(h, (8,), w1[0], None)
                elif s == "rms":
                    h = U.rms_norm(h, (8,), w2[0])
                elif s == "res":
                    h = U.residual_apply(lambda t: U.linear(t, w1, None), h, tau=0.3)
                elif s == "add":
                    h = U.add(h, x, constraint=None)
                elif s == "dropout0":
                    h = U.dropout(h, 0.0, True)
                elif s == "glu":
                    h = U.silu_glu(h, x, mult=2.0)
                elif s == "attn":
                    h = U.scaled_dot_product_attention(h, h, x, is_causal=True, mult=0.5)
                else:
                    h = mods[i % 3](h)
            return U.mse_loss(h, x) if rng_tail else h.sum()

        return f, [x] + ws

    return make, dt0, f"steps={steps} dtype={dt0} tail={'mse' if rng_tail else 'sum'}"


def rel_dist(a: Optional[torch.Tensor], b: Optional[torch.Tensor]) -> float:
    if a is None or b is None:
        return 0.0
    a64, b64 = a.double(), b.double()
    m = torch.isfinite(a64) & torch.isfinite(b64)
    if not bool(m.any()):
        return 0.0
    return float((a64[m] - b64[m]).abs().max()) / max(float(b64[m].abs().max()), 1e-30)


def check_cfgs(rep: Report, cfgs: List[Dict[str, Any]], modes: List[str], rng: random.Random, inductor_share: float = 0.35) -> int:
    """Every configuration: eager call log + every mode's call log (ScaledOps_Trace) and eager-vs-mode closeness."""
    classes = fnlog.Classes()
    events: List[List[Any]] = []
    cfg_of: Dict[int, Dict[str, Any]] = {}
    skipped_fx = 0
    for cid, cfg in enumerate(cfgs, start=1):
        cfg_of[cid] = cfg
        dt = cfg.get("dtype", "f64")
        ev, _ = fnlog.events_for_cfg(cid, cfg, True, True, classes, draws=((0, 0),))
        events += ev
        rep.case((cfg["op"], dt, json.dumps(cfg, sort_keys=True, default=str)))
        try:
            e_out, e_grads = raw_run(cfg, "eager", True)
        except Exception as ex:
            continue   # eager failures are C01's business
        for mode in modes + ["leaf_tracer", "fx_forward"]:
            if mode == "inductor" and inductor_share < 1.0 and rng.random() > inductor_share:
                continue
            back = mode != "fx_forward"
            try:
                evm, _ = fnlog.events_for_cfg(cid, cfg, True, back, classes, mode=mode, runner=make_runner(mode), draws=((0, 0),))
                c_out, c_grads = raw_run(cfg, mode, back)
            except Exception as ex:
                if mode == "fx_forward":
                    skipped_fx += 1     # not symbolically traceable (data-dependent python in the op)
                    if not fx_expected(cfg):    # recorded as a KNOWN FINDING per op (known_findings.json), not silently skipped
                        mean = cfg.get("constraint", "__default__") in ("gmean", "hmean", "amean") and cfg["op"] in FX_TRACEABLE_AT_PIN
                        rep.violation(f"{cfg['op']} cannot be traced by plain torch.fx: {type(ex).__name__}: {str(ex)[:100]}; cfg={cfg}", {"cfg": cfg, "mode": mode, "what": "fx_trace"},
                                      key=f"kf:fx_untraceable:{'mean_constraint' if mean else cfg['op']}")
                    if fx_expected(cfg):
                        rep.violation(f"{cfg['op']} cannot be traced by plain torch.fx any more (it could on the pinned tree, so symbolic tracing no longer reproduces its forward values): {type(ex).__name__}: {str(ex)[:100]}; cfg={cfg}",
                                      {"cfg": cfg, "mode": mode, "what": "fx_trace"}, key=f"fx_no_longer_traceable:{cfg['op']}")
                    continue
                rep.violation(f"{cfg['op']} under {mode} raised {type(ex).__name__}: {str(ex)[:160]}; cfg={cfg}", {"cfg": cfg, "mode": mode}, key=f"raised:{mode}:{cfg['op']}")
                continue
            if mode == "fx_forward" and any(e[0] == "err" and e[5] == 1 for e in evm):
                skipped_fx += 1
                if fx_expected(cfg):
                    rep.violation(f"{cfg['op']} raises under plain torch.fx tracing (it did not on the pinned tree); cfg={cfg}", {"cfg": cfg, "mode": mode, "what": "fx_trace"}, key=f"fx_no_longer_traceable:{cfg['op']}")
                continue
            events += evm
            # aot_eager / leaf tracer / fx run the SAME ATen kernels as eager: float64 must agree at float64 rounding for every
            # op.  Only Inductor re-generates the kernels, so only there the float32 statistic inside U.rms_norm
            # (core.functional.rms, float32 by design) may round differently.
            tol = 1e-6 if (cfg["op"] == "rms_norm" and dt == "f64" and mode == "inductor") else CLOSE[dt]
            if not close(c_out, e_out, tol):
                rep.violation(f"{cfg['op']} ({dt}): forward under {mode} differs from eager beyond {tol:g}; cfg={cfg}", {"cfg": cfg, "mode": mode, "what": "forward"}, key=f"forward:{mode}:{dt}")
            elif back and e_grads is not None and c_grads is not None:
                for gi, (a, b) in enumerate(zip(c_grads, e_grads)):
                    if (a is None) != (b is None) or (a is not None and not close(a, b, tol)):
                        rep.violation(f"{cfg['op']} ({dt}): gradient #{gi} under {mode} differs from eager beyond {tol:g}; cfg={cfg}", {"cfg": cfg, "mode": mode, "what": f"grad{gi}"}, key=f"gradient:{mode}:{dt}")
                        break
    validate(rep, events, cfg_of, "C20")
    rep.extra["events"] = rep.extra.get("events", 0) + len(events)
    return skipped_fx


def check_modules(rep: Report, modes: List[str], rng: random.Random) -> None:
    """Every public module through torch.compile as a MODULE (parameters reached as attributes), called three times: shape A,
    another batch size (TorchDynamo recompiles / goes dynamic: the scales are Python arithmetic on shapes), shape A again; each
    call compared with eager on the same input.  Graph breaks are counted (a broken graph runs partly eagerly)."""
    import unit_scaling as uu
    from unit_scaling import _modules as M

    def ids(b, s, v):
        return torch.randint(0, v, (b, s), generator=torch.Generator().manual_seed(b * 131 + s))

    def flt(*shape):
        return torch.randn(*shape, generator=torch.Generator().manual_seed(sum(shape) * 17 + len(shape)))

    fam = [
        ("Linear(8,12,bias,gmean)", lambda: uu.Linear(8, 12, bias=True, constraint="gmean"), lambda b: flt(b, 3, 8)),
        ("LinearReadout(8,5)", lambda: uu.LinearReadout(8, 5), lambda b: flt(b, 8)),
        ("Conv1d(4,6,3,padding=1,circular)", lambda: uu.Conv1d(4, 6, 3, padding=1, padding_mode="circular"), lambda b: flt(b, 4, 9)),
        ("Conv1d(4,4,2,stride=2,groups=2)", lambda: uu.Conv1d(4, 4, 2, stride=2, groups=2, bias=True), lambda b: flt(b, 4, 8)),
        ("LayerNorm(8,affine)", lambda: uu.LayerNorm(8, elementwise_affine=True), lambda b: flt(b, 3, 8)),
        ("RMSNorm(8,affine)", lambda: uu.RMSNorm(8, elementwise_affine=True), lambda b: flt(b, 3, 8)),
        ("Embedding(11,6,max_norm)", lambda: uu.Embedding(11, 6, max_norm=1.0), lambda b: ids(b, 4, 11)),
        ("Embedding(11,6,padding_idx)", lambda: uu.Embedding(11, 6, padding_idx=0), lambda b: ids(b, 4, 11)),
        ("GELU(tanh,mult)", lambda: uu.GELU(mult=0.5, approximate="tanh"), lambda b: flt(b, 7)),
        ("SiLU(mult)", lambda: uu.SiLU(mult=2.0, constraint=None), lambda b: flt(b, 7)),
        ("Softmax(dim=-1,mult)", lambda: uu.Softmax(dim=-1, mult=0.5), lambda b: flt(b, 9)),
        ("MLP(8,2)", lambda: uu.MLP(8, 2), lambda b: flt(b, 3, 8)),
        ("MHSA(8,2,causal)", lambda: uu.MHSA(8, 2, is_causal=True, dropout_p=0.0), lambda b: flt(b, 5, 8)),
        ("TransformerLayer(8,2)", lambda: uu.TransformerLayer(8, 2, mhsa_tau=0.3, mlp_tau=0.7, is_causal=True, dropout_p=0.0), lambda b: flt(b, 5, 8)),
        ("TransformerDecoder(8,11,2,2)", lambda: uu.TransformerDecoder(8, vocab_size=11, layers=2, heads=2, dropout_p=0.0), lambda b: ids(b, 5, 11)),
        ("DepthSequential(Linear,Linear)", lambda: M.DepthSequential(uu.Linear(8, 12), uu.Linear(12, 8)), lambda b: flt(b, 8)),
    ]
    breaks = 0
    for label, ctor, mk in fam:
        torch.manual_seed(7)
        mod = ctor()
        for p_ in mod.parameters():     # trained-looking parameters (biases are zero-initialised)
            with torch.no_grad():
                p_.add_(torch.randn(p_.shape, generator=torch.Generator().manual_seed(p_.numel())) * 0.3)

        def run(fn, x):
            mod.zero_grad(set_to_none=True)
            xi = x.clone().requires_grad_() if x.is_floating_point() else x.clone()
            y = fn(xi)
            y = y[0] if isinstance(y, tuple) else y
            up = torch.randn(y.shape, generator=torch.Generator().manual_seed(3))
            y.backward(up)
            return y.detach().clone(), ([xi.grad.clone()] if xi.is_floating_point() else []) + [None if p_.grad is None else p_.grad.clone() for p_ in mod.parameters()]

        for mode in modes:
            rep.case(("module", label, mode))
            torch._dynamo.reset()
            torch._dynamo.utils.counters.clear()
            try:
                cm = torch.compile(mod, backend=mode)
                for call, b in enumerate((2, 3, 2)):
                    x = mk(b)
                    ye, ge = run(mod, x)
                    yc, gc = run(cm, x)
                    if not close(yc, ye, CLOSE["f32"]) or any((a is None) != (bb is None) or (a is not None and not close(a, bb, CLOSE["f32"])) for a, bb in zip(gc, ge)):
                        rep.violation(f"module {label}: call #{call + 1} (batch {b}) under torch.compile(backend={mode}) differs from eager", {"module": label, "mode": mode, "call": call, "batch": b}, key=f"module:{mode}:{label.split('(')[0]}")
                        break
            except Exception as ex:
                rep.violation(f"module {label} under torch.compile(backend={mode}) raised {type(ex).__name__}: {str(ex)[:160]}", {"module": label, "mode": mode}, key=f"module_raised:{mode}:{label.split('(')[0]}")
            breaks += sum(torch._dynamo.utils.counters["graph_break"].values())
    rep.extra["module_graph_breaks"] = breaks


def check_composition(rep: Report, case_seed: int, modes: List[str]) -> None:
    make, dt0, label = composition(random.Random(case_seed))
    rep.case(("composition", case_seed))

    def run_mode(mode, dt):
        """Two calls of ONE (compiled) callable: the drawn input, then another batch size (recompilation / dynamic shapes: every
        scale is Python arithmetic on shapes).  Outputs and gradients of both calls are returned concatenated."""
        f, tens = make(dt)
        torch._dynamo.reset()
        fn = f if mode == "eager" else torch.compile(f, backend=mode)
        ys, gs = [], []
        for call in range(2):
            ts = [t.detach().clone().requires_grad_() for t in tens]
            if call == 1:
                ts[0] = torch.randn((3,) + tuple(tens[0].shape[1:]), generator=torch.Generator().manual_seed(case_seed % 1000), dtype=torch.float64).to(dt).requires_grad_()
            torch.manual_seed(1)
            y = fn(*ts)
            g = torch.autograd.grad(y, ts, allow_unused=True)
            ys.append(y.detach().reshape(-1))
            gs += list(g)
        return torch.cat(ys), tuple(gs)

    try:
        ye, ge = run_mode("eager", dt0)
        y32, g32 = run_mode("eager", torch.float32)
        y64, g64 = run_mode("eager", torch.float64)
    except Exception as ex:
        return
    # "to float rounding": the admissible distance is conditioned on the composition -- amplification = how far eager
    # float32 is from eager float64 on the same data, in units of float32 epsilon; a compiled run in dtype D may be
    # 64 x amplification x eps(D) away from eager (never less than the flat tolerance used for single ops)
    amp = max([rel_dist(y32, y64)] + [rel_dist(a, b) for a, b in zip(g32, g64)]) / 2.0 ** -23
    for mode in modes:
        # U.rms_norm computes its statistic in float32 by design (core.functional.rms), whatever the input dtype: under
        # Inductor (re-generated kernels) a float64 composition containing it agrees only at float32 rounding; aot_eager
        # runs the same ATen kernels as eager and must agree at the dtype's own rounding
        f32_inside = dt0 == torch.float32 or ("rms" in label and mode == "inductor")
        base = 1e-6 if (f32_inside and dt0 == torch.float64) else (1e-11 if dt0 == torch.float64 else 5e-5)
        tol = max(base, 64.0 * amp * (2.0 ** -23 if f32_inside else 2.0 ** -52))
        try:
            yc, gc = run_mode(mode, dt0)
        except Exception as ex:
            rep.violation(f"composition {label} under {mode} raised {type(ex).__name__}: {str(ex)[:160]}", {"composition": label, "mode": mode, "case_seed": case_seed}, key=f"composition_raised:{mode}")
            continue
        bad = not close(yc, ye, tol) or any((a is None) != (b is None) or (a is not None and not close(a, b, tol)) for a, b in zip(gc, ge))
        if bad:
            worst = max([rel_dist(yc, ye)] + [rel_dist(a, b) for a, b in zip(gc, ge)])
            rep.violation(f"composition {label}: {mode} differs from eager by {worst:.3g} (relative to the largest element), beyond {tol:.3g} (float32-vs-float64 amplification of this composition: {amp:.3g})",
                          {"composition": label, "mode": mode, "case_seed": case_seed}, key=f"composition:{mode}:{dt0}")


def run(rep: Report, tier: str) -> None:
    rng = random.Random(common.seed() * 73 + 24)
    torch.manual_seed(common.seed())
    torch.set_num_threads(2)
    quick = tier == "quick"
    res = common.run_tlc("ScaledOps_MC", "ScaledOps_MC.cfg", coverage=True, timeout=600, tag="somc")
    common.tlc_must_pass(res, "ScaledOps_MC")
    rep.add_tlc(res)
    modes = ["aot_eager"] + ([] if quick else ["inductor"])
    cfgs = pick_cfgs(rng, 70 if quick else 250)
    skipped_fx = check_cfgs(rep, cfgs, modes, rng)
    check_modules(rep, modes, rng)
    # compositions and modules
    for i in range(10 if quick else 60):
        check_composition(rep, rng.randrange(1 << 30), modes)
    rep.extra["fx_symbolic_trace_not_applicable"] = skipped_fx
    rep.rule = "a slice of the C01/C02 configurations (every op, dtypes f64/f32/bf16) x modes {eager, aot_eager, (thorough) inductor, leaf tracer, fx forward} + compositions of 2-6 ops/modules; non-trivial = all"
    rep.sample({"cfg": cfgs[0], "modes": modes + ["leaf_tracer", "fx_forward"]})
    rep.assumptions += ["dropout with p>0 in training mode and attention with dropout_p>0 are excluded (eager and compiled RNG streams differ in torch itself)", "ops that are not symbolically traceable by plain torch.fx are skipped for the fx clause and counted"]


def replay(rep: Report, path: str) -> None:
    """Re-runs exactly the recorded configuration (all modes) or composition (by its case seed) on the current code."""
    d = json.load(open(path))
    c = d["case"]
    rep.case("replay")
    rep.case(json.dumps(c, default=str)[:200])
    rep.sample(c)
    torch.set_num_threads(2)
    modes = ["aot_eager"] + (["inductor"] if c.get("mode") == "inductor" else [])
    if c.get("case_seed") is not None:
        check_composition(rep, int(c["case_seed"]), modes)
    elif c.get("cfg") is not None:
        cfg = {k: v for k, v in c["cfg"].items() if k != "expect"}
        check_cfgs(rep, [cfg], modes, random.Random(0), inductor_share=1.0)
    else:
        run(rep, "quick")
