"""C18 -- scale tracking is purely observational; its metrics are the true statistics.

L2: TrackScales_MC: a reverse-mode interpreter over small integer vectors; for every program with <= 2 (thorough:
    more by simulation) ops over {neg, mul2, relu, add, sub, mul, detach, isneg(bool), where}, 1-2 inputs, 1-2 outputs:
    the instrumented program (tracker = identity clone after every float node, as run_node inserts it) computes the
    same values and input gradients; the tracker's input is the value that flowed, the gradient at the tracker is the
    TOTAL gradient (summed over all consumers); trackers only on float values; deviation "tracker_detaches" refuted.
L3 (B): random module graphs (fan-out, integer/bool intermediates, multiple outputs, parameters, zeros in inputs,
    detached branches) run through the real ScaleTrackingBackend, track_scales (TorchDynamo) and the analyse_module
    interpreter; outputs/gradients compared bitwise with the plain module; every recorded metric compared by
    TrackScales_Trace with integer sums captured independently (plain fx.Interpreter + retain_grad).
"""
from __future__ import annotations

import json
import math
import random
from fractions import Fraction
from typing import Any, Dict, List, Optional, Tuple

import torch
from torch import fx, nn

from . import common, fxgen
from .common import Report

ABSENT = {"present": False}
INT_VOCAB = [v for v in fxgen.TRACK_VOCAB if v != "near1"]   # near1 (x 1.0078125) leaves the integers: such graphs could only be skipped here


class Capture(fx.Interpreter):
    """Plain execution of the un-instrumented graph, keeping every intermediate float tensor (and its total gradient)."""

    def __init__(self, gm: fx.GraphModule):
        super().__init__(gm)
        self.vals: Dict[str, Any] = {}

    def run_node(self, n: fx.Node) -> Any:
        out = super().run_node(n)
        self.vals[n.name] = out
        if isinstance(out, torch.Tensor) and out.is_floating_point() and out.requires_grad:
            out.retain_grad()
        return out


def sums(t: Optional[torch.Tensor]) -> Dict[str, Any]:
    if t is None:
        return dict(ABSENT)
    x = t.detach().to(torch.float64).reshape(-1)
    if x.numel() == 0 or not bool(torch.all(x == x.round())) or float(x.numel()) ** 2 * float(x.abs().max()) ** 2 >= 2.0 ** 30:   # n * ssq must fit TLC's 32-bit integers
        return {"present": True, "inexact": True}
    xi = [int(v) for v in x.tolist()]
    return {"present": True, "n": len(xi), "sabs": sum(abs(v) for v in xi), "ssum": sum(xi), "ssq": sum(v * v for v in xi),
            "amax": max(abs(v) for v in xi), "amin": min(abs(v) for v in xi)}


def rat(x: float) -> List[int]:
    fr = Fraction(x).limit_denominator(1 << 12)
    return [fr.numerator, fr.denominator]


def recorded(d: Any, n_hint: int) -> Dict[str, Any]:
    """Metrics.Data -> record for TLC."""
    if d is None:
        return dict(ABSENT)
    n = d.numel
    k = n * (n - 1)
    v = d.std * d.std * k if n > 1 and not math.isnan(d.std) else 0.0
    return {"present": True, "mean_abs": rat(d.mean_abs), "abs_mean": rat(d.abs_mean), "abs_max": rat(d.abs_max), "abs_min": rat(d.abs_min),
            "numel": int(n), "vlo": int(math.floor(v)), "vhi": int(math.ceil(v))}


def recorded_std_only(std: Optional[float], n: int) -> Dict[str, Any]:
    if std is None:
        return dict(ABSENT)
    k = n * (n - 1)
    v = std * std * k if n > 1 and not math.isnan(std) else 0.0
    return {"present": True, "mean_abs": [0, 1], "abs_mean": [0, 1], "abs_max": [0, 1], "abs_min": [0, 1], "numel": n, "vlo": int(math.floor(v)), "vhi": int(math.ceil(v))}


def snapshot(cap: "Capture") -> Dict[str, Tuple[bool, Dict[str, Any], Dict[str, Any]]]:
    """name -> (is float, forward sums, total-gradient sums), read right after the plain run."""
    out = {}
    for name, v in cap.vals.items():
        isf = isinstance(v, torch.Tensor) and v.is_floating_point()
        out[name] = (bool(isf), sums(v) if isf else dict(ABSENT), sums(v.grad if (isf and v.requires_grad) else None))
    return out


def backward_some(outs, ups, mode: str) -> None:
    """mode: "all" = backward through every float output, "first" = only the first one, "none" = forward only."""
    fl = [(o, u) for o, u in zip(outs, ups) if isinstance(o, torch.Tensor) and o.is_floating_point() and o.requires_grad]
    if mode == "first":
        fl = fl[:1]
    if mode != "none" and fl:
        torch.autograd.backward([o for o, _ in fl], [u for _, u in fl])


def plain_run(gm: fx.GraphModule, xs: List[torch.Tensor], ups: List[torch.Tensor], mode: str = "all"):
    gm.zero_grad(set_to_none=True)
    cap = Capture(gm)
    ins = [x.clone().requires_grad_() for x in xs]
    outs = cap.run(*ins)
    outs = outs if isinstance(outs, tuple) else (outs,)
    backward_some(outs, ups, mode)
    return cap, ins, outs


def trace_backend(rng: random.Random, n_ops: int, modes: Tuple[str, ...] = ("all",)) -> Optional[List[Dict[str, Any]]]:
    """One tracked callable, called once per entry of `modes` (a history of runs: the node metadata persists between
    calls, so a later forward-only or partial-backward run must not report the previous run's backward metrics)."""
    from unit_scaling.transforms._track_scales import ScaleTrackingBackend

    gm, nin, nout = fxgen.random_tracked_module(rng, n_ops, INT_VOCAB)
    g = torch.Generator().manual_seed(rng.randrange(1 << 30))
    be = ScaleTrackingBackend()
    f = None
    traces = []
    for mode in modes:
        xs = fxgen.int_inputs(rng, nin, with_zeros=True)
        ups = [torch.randint(-2, 3, fxgen.SHAPE, generator=g).float() for _ in range(nout)]
        cap, pins, pouts = plain_run(gm, xs, ups, mode)
        snap = snapshot(cap)
        pgrad = {k: (v.grad.clone() if v.grad is not None else None) for k, v in gm.named_parameters()}
        gm.zero_grad(set_to_none=True)
        if f is None:
            f = be(gm, xs)
        tins = [x.clone().requires_grad_() for x in xs]
        touts = f(*tins)
        touts = touts if isinstance(touts, tuple) else (touts,)
        backward_some(touts, ups, mode)
        same_out = len(touts) == len(pouts) and all(torch.equal(a, b) and a.dtype == b.dtype for a, b in zip(touts, pouts))
        gsame = all((a.grad is None and b.grad is None) or (a.grad is not None and b.grad is not None and torch.equal(a.grad, b.grad)) for a, b in zip(tins, pins))
        for k, v in gm.named_parameters():
            a, b = v.grad, pgrad[k]
            gsame = gsame and ((a is None and b is None) or (a is not None and b is not None and torch.equal(a, b)))
        nodes = []
        for n in be.graph.nodes:
            if n.op == "output":
                continue
            isf, cf, cb = snap[n.name]
            m = n.meta.get("metrics")
            if cf.get("inexact") or cb.get("inexact"):
                return None
            nodes.append({"name": n.name, "float": bool(isf), "has": m is not None, "fwd": recorded(m.fwd if m else None, 0), "bwd": recorded(m.bwd if m else None, 0), "cf": cf, "cb": cb})
        traces.append({"kind": "track", "same_out": bool(same_out), "same_grad": bool(gsame), "nodes": nodes, "code": f"run history {list(modes)}, this run: {mode}\n" + gm.code})
    return traces


REAL_KINDS = {"f64": (torch.float64, 30, (0, 0, 150, -150), 1e-12), "f32": (torch.float32, 12, (0, 0, 40, -40), 1e-5)}
DYADIC_VOCAB = [v for v in fxgen.TRACK_VOCAB if v not in ("near1", "mul_kw")]   # homogeneous of degree 1: sums of dyadics stay exact


def true_stats(t: torch.Tensor) -> Dict[str, float]:
    x = t.detach().to(torch.float64).reshape(-1)
    return {"mean_abs": float(x.abs().mean()), "abs_mean": float(x.mean().abs()), "std": float(x.std()) if x.numel() > 1 else float("nan"),
            "abs_max": float(x.abs().max()), "abs_min": float(x.abs().min()), "numel": int(x.numel())}


def which_wrong(d: Any, t: Optional[torch.Tensor], tol: float) -> str:
    """"" if the recorded Metrics.Data equals the statistics of the captured tensor (max/min/numel exactly; means and
    std within `tol` of the tensor's magnitude: they are reductions computed in the tensor's own dtype)."""
    if d is None or t is None:
        return ""
    ts = true_stats(t)
    mag = ts["abs_max"]
    if int(d.numel) != ts["numel"]:
        return "numel"
    if d.abs_max != ts["abs_max"]:
        return "abs_max"
    if d.abs_min != ts["abs_min"]:
        return "abs_min"
    for k in ("mean_abs", "abs_mean", "std"):
        a, b = getattr(d, k), ts[k]
        if math.isnan(b):
            continue
        if not (abs(a - b) <= tol * mag):
            return k
    return ""


def trace_backend_real(rng: random.Random, n_ops: int, dt: str, modes: Tuple[str, ...] = ("all",)) -> Optional[List[Dict[str, Any]]]:
    """As trace_backend, for non-integer data in float64 / float32: every value is (small integer + small integer *
    2^-frac) * 2^k -- exactly representable in the dtype, and closed under the (degree-1 homogeneous) vocabulary, so that
    every gradient sum is exact and bit-identity does not depend on autograd's accumulation order -- but NOT representable
    in any narrower float type.  Metrics are compared by the harness with float64 statistics of the captured tensors;
    TLC receives the verdict flags (kind "track_real")."""
    from unit_scaling.transforms._track_scales import ScaleTrackingBackend

    dtype, frac, exps, tol = REAL_KINDS[dt]
    gm, nin, nout = fxgen.random_tracked_module(rng, n_ops, DYADIC_VOCAB)
    gm = gm.to(dtype)
    g = torch.Generator().manual_seed(rng.randrange(1 << 30))
    k = rng.choice(exps)
    be = ScaleTrackingBackend()
    f = None
    traces = []

    def dyadic(ints: torch.Tensor) -> torch.Tensor:
        lo = torch.randint(-5, 6, ints.shape, generator=g).to(dtype)
        return (ints.to(dtype) + lo * 2.0 ** -frac) * 2.0 ** k

    for mode in modes:
        xs = [dyadic(x) for x in fxgen.int_inputs(rng, nin, with_zeros=True)]
        ups = [dyadic(torch.randint(-2, 3, fxgen.SHAPE, generator=g)) for _ in range(nout)]
        cap, pins, pouts = plain_run(gm, xs, ups, mode)
        vals = {name: (v.detach().clone(), (v.grad.detach().clone() if (v.requires_grad and v.grad is not None) else None))
                for name, v in cap.vals.items() if isinstance(v, torch.Tensor) and v.is_floating_point()}
        for name, (v, gv) in vals.items():   # stay inside the exactly representable range
            if not bool(torch.isfinite(v).all()) or float(v.abs().max()) > 65 * 2.0 ** k or (gv is not None and float(gv.abs().max()) > 65 * 2.0 ** k):
                return None
        pgrad = {kk: (v.grad.clone() if v.grad is not None else None) for kk, v in gm.named_parameters()}
        gm.zero_grad(set_to_none=True)
        if f is None:
            f = be(gm, xs)
        tins = [x.clone().requires_grad_() for x in xs]
        touts = f(*tins)
        touts = touts if isinstance(touts, tuple) else (touts,)
        backward_some(touts, ups, mode)
        same_out = len(touts) == len(pouts) and all(torch.equal(a, b) and a.dtype == b.dtype for a, b in zip(touts, pouts))
        gsame = all((a.grad is None and b.grad is None) or (a.grad is not None and b.grad is not None and a.grad.dtype == b.grad.dtype and torch.equal(a.grad, b.grad)) for a, b in zip(tins, pins))
        for kk, v in gm.named_parameters():
            a, b = v.grad, pgrad[kk]
            gsame = gsame and ((a is None and b is None) or (a is not None and b is not None and torch.equal(a, b)))
        nodes = []
        for n in be.graph.nodes:
            if n.op == "output":
                continue
            isf = n.name in vals
            m = n.meta.get("metrics")
            v, gv = vals.get(n.name, (None, None))
            nodes.append({"name": n.name, "float": bool(isf), "has": m is not None,
                          "fwd": {"present": bool(m is not None and m.fwd is not None)}, "bwd": {"present": bool(m is not None and m.bwd is not None)},
                          "cf": {"present": v is not None}, "cb": {"present": gv is not None},
                          "fwd_bad": which_wrong(m.fwd if m else None, v, tol), "bwd_bad": which_wrong(m.bwd if m else None, gv, tol)})
        traces.append({"kind": "track_real", "same_out": bool(same_out), "same_grad": bool(gsame), "nodes": nodes,
                       "code": f"dtype {dt}, values (int + int*2^-{frac}) * 2^{k}; run history {list(modes)}, this run: {mode}\n" + gm.code})
    return traces


class DynMod(nn.Module):
    def __init__(self, variant: int):
        super().__init__()
        self.v = variant
        self.lin = nn.Linear(8, 8, bias=False)
        with torch.no_grad():
            self.lin.weight.copy_(torch.randint(-1, 2, (8, 8)).float())
        if variant % 4 == 2:
            self.lin.weight.requires_grad_(False)      # a frozen (pre-trained) weight: receives no gradient, must stay frozen under tracking
        self.register_buffer("off", torch.tensor([1.0, -1.0, 0.0, 2.0, 0.0, -2.0, 1.0, 0.0]))   # a float buffer that takes part when v % 3 == 1

    def forward(self, x):
        a = torch.relu(x)
        if self.v % 3 == 1:
            a = a + self.off
        b = self.lin(a) if self.v % 2 == 0 else a * 2
        m = b > 0
        c = torch.where(m, a, -a)
        d = a + c                     # `a` has three consumers
        if self.v % 3 == 0:
            d = torch.cat([d, b], dim=0)[:4]
        return d.sum() + (b * 2).sum()


def trace_dynamo(rng: random.Random, variant: int, modes: Tuple[str, ...] = ("all",)) -> Optional[List[Dict[str, Any]]]:
    from unit_scaling.transforms import track_scales

    torch.manual_seed(variant)
    mod = DynMod(variant)
    tm = track_scales(mod)
    traces = []
    for mode in modes:
        mode, _, rows = mode.partition("@")     # "all@2": this call has 2 rows instead of 4 -> TorchDynamo recompiles
        x = fxgen.int_inputs(rng, 1)[0]
        if rows:
            x = x[: int(rows)].clone()
        px = x.clone().requires_grad_()
        mod.zero_grad(set_to_none=True)
        pout = mod(px)
        if mode != "none":
            pout.backward()
        pgrad = {k: v.grad.clone() for k, v in mod.named_parameters() if v.grad is not None}
        tm.zero_grad(set_to_none=True)
        tx = x.clone()
        tout = tm(x=tx) if variant % 2 else tm(tx)      # odd variants pass the (not yet grad-requiring) input BY KEYWORD
        bwd_err = None
        if mode != "none":
            try:
                tout.backward()
            except Exception as ex:      # the plain module's backward worked: tracking changed the gradients it produces
                bwd_err = f"{type(ex).__name__}: {str(ex)[:100]}"
        same_out = torch.equal(tout, pout)
        same_grad = True
        if mode != "none":
            same_grad = bwd_err is None and tx.grad is not None and torch.equal(tx.grad, px.grad) and all(torch.equal(v.grad, pgrad[k]) for k, v in tm.named_parameters() if k in pgrad)
            # a parameter the plain module gives no gradient (frozen) gets none from the tracked one either
            same_grad = same_grad and all(v.grad is None for k, v in tm.named_parameters() if k not in pgrad)
        # tracking leaves the trainable / frozen status of parameters and buffers as it was
        flags = {k: v.requires_grad for k, v in list(mod.named_parameters()) + list(mod.named_buffers())}
        same_grad = same_grad and all(v.requires_grad == flags[k] for k, v in list(tm.named_parameters()) + list(tm.named_buffers()))
        # independent capture on the traced graph itself (un-instrumented execution of the same fx graph)
        g = tm.scales_graph()
        gm = fx.GraphModule(tm, g)
        cap = Capture(gm)
        cx = x.clone().requires_grad_()
        feed = []
        for n in g.nodes:
            if n.op == "placeholder":   # Dynamo lifts parameters to placeholders; after a shape change also the (symbolic) batch size
                if not isinstance(n.meta.get("example_value"), torch.Tensor) and n.meta.get("example_value") is not None:
                    feed.append(int(x.shape[0]))
                else:
                    feed.append(mod.lin.weight.detach().clone().requires_grad_(mod.lin.weight.requires_grad) if "parameters" in str(n.target)
                                else mod.off.detach().clone() if "buffers" in str(n.target) else cx)
        cout = cap.run(*feed)
        cout = cout[0] if isinstance(cout, tuple) else cout
        if mode != "none":
            cout.backward()
        nodes = []
        for n in g.nodes:
            if n.op == "output":
                continue
            v = cap.vals.get(n.name)
            isf = isinstance(v, torch.Tensor) and v.is_floating_point()
            m = n.meta.get("metrics")
            cf = sums(v) if isf else dict(ABSENT)
            cb = sums(v.grad if (isf and v.requires_grad) else None)
            if cf.get("inexact") or cb.get("inexact"):
                return None
            nodes.append({"name": n.name, "float": bool(isf), "has": m is not None, "fwd": recorded(m.fwd if m else None, 0), "bwd": recorded(m.bwd if m else None, 0), "cf": cf, "cb": cb})
        traces.append({"kind": "track", "same_out": bool(same_out), "same_grad": bool(same_grad), "nodes": nodes, "code": f"DynMod({variant}) run history {list(modes)}, this run: {mode}"})
    return traces


def trace_analyse(rng: random.Random, n_ops: int) -> Optional[Dict[str, Any]]:
    """utils.ScaleTrackingInterpreter (used by analyse_module): std forward/backward only."""
    from unit_scaling.utils import ScaleTrackingInterpreter

    b = fxgen.Builder(rng, 1)
    for _ in range(n_ops):
        b.add_op([v for v in INT_VOCAB if v not in ("detach_branch",)])
    gm = b.finish(1)
    x = fxgen.int_inputs(rng, 1)[0]
    g = torch.Generator().manual_seed(rng.randrange(1 << 30))
    up = torch.randint(-2, 3, fxgen.SHAPE, generator=g).float()
    cap, pins, pouts = plain_run(gm, [x], [up])
    snap = snapshot(cap)
    gm.zero_grad(set_to_none=True)
    ti = ScaleTrackingInterpreter(gm)
    tx = x.clone().requires_grad_()
    tout = ti.run(tx)
    tout = tout[0] if isinstance(tout, tuple) else tout
    tout.backward(up)
    same_out = torch.equal(tout, pouts[0])
    same_grad = torch.equal(tx.grad, pins[0].grad)
    nodes = []
    for n in gm.graph.nodes:
        if n.op == "output":
            continue
        isf, cf, cb = snap[n.name]
        sp = ti.scales.get(n.name)
        if cf.get("inexact") or cb.get("inexact"):
            return None
        nn_ = cf.get("n", 1)
        nodes.append({"name": n.name, "float": bool(isf), "has": sp is not None,
                      "fwd": recorded_std_only(sp.forward if sp else None, nn_), "bwd": recorded_std_only(sp.backward if (sp and sp.backward is not None) else None, cb.get("n", nn_)),
                      "cf": cf, "cb": cb})
    return {"kind": "analyse", "same_out": bool(same_out), "same_grad": bool(same_grad), "nodes": nodes, "code": gm.code}


# ---------------------------------------------------------------------- growth item: the text of analyse_module
class _AnnMod(nn.Module):
    """Unit-scaled functions (wrap(...) preamble lines), a non-float intermediate, two inputs of which one gets no gradient."""

    def __init__(self, v: int):
        super().__init__()
        import unit_scaling as uu

        self.v = v
        self.l = uu.Linear(8, 8, bias=(v % 2 == 0))
        self.n = nn.LayerNorm(8)

    def forward(self, x, y):
        import unit_scaling.functional as U

        h = self.l(x)
        h = U.gelu(h) + y if self.v % 3 else U.silu(h) * y
        i = h.size(0)
        h = h.reshape(i, 8)
        return self.n(h).square().sum()


def abstract_lines(code: str) -> List[Dict[str, Any]]:
    import ast
    import re

    out = []
    for line in code.splitlines():
        st = line.strip()
        if line.startswith("torch.fx._symbolic_trace.wrap"):
            out.append({"k": "wrap", "name": "", "args": [], "head": "wrap"})
        elif not st:
            out.append({"k": "blank", "name": "", "args": [], "head": ""})
        elif st.startswith("def "):
            fn = ast.parse(st + "\n    ...").body[0]
            out.append({"k": "def", "name": "", "args": [a.arg for a in fn.args.args], "head": "def"})  # type: ignore[attr-defined]
        elif re.match(r"^[A-Za-z_][A-Za-z0-9_]* = ", st):
            out.append({"k": "assign", "name": st.split(" ")[0], "args": [], "head": st.split(" ")[0]})
        else:
            out.append({"k": "other", "name": "", "args": [], "head": st.split(" ")[0]})
    return out


def annotate_cases(rep: Report, rng: random.Random, n: int) -> None:
    """spec/Annotate.tla: which line of analyse_module's text carries which recorded scale (BEYOND the listed properties:
    disagreements are reported with rep.beyond, never as a C18 violation)."""
    import re

    from unit_scaling.utils import _annotate, _DeepTracer, _record_scales, analyse_module

    cases, texts, labels = [], [], []
    for i in range(n):
        if i % 4 == 0:
            torch.manual_seed(i)
            mod: nn.Module = _AnnMod(i // 4)
            ins: Tuple[torch.Tensor, ...] = (torch.randn(4, 8).requires_grad_(), torch.randn(4, 8))
            bwd = None
            label = f"_AnnMod({i // 4})"
        else:
            b = fxgen.Builder(random.Random(rng.randrange(1 << 30)), 1)
            for _ in range(rng.randint(1, 6)):
                b.add_op([v for v in fxgen.TRACK_VOCAB if v != "detach_branch"])
            mod = b.finish(1)
            ins = (fxgen.int_inputs(rng, 1)[0].requires_grad_(),)
            bwd = (torch.ones(fxgen.SHAPE),)
            label = "random graph"
        try:
            tr = _DeepTracer()
            graph = tr.trace(mod)
            gmod = fx.GraphModule(tr.root, graph)
            run_in = tuple(t.detach().clone().requires_grad_(t.requires_grad) for t in ins)
            tracking = __import__("unit_scaling.utils", fromlist=["ScaleTrackingInterpreter"]).ScaleTrackingInterpreter(gmod)
            out = tracking.run(*run_in)
            out = out[0] if isinstance(out, tuple) else out
            out.backward(bwd[0] if bwd else None)
            scales = tracking.scales
            text = _annotate(gmod.code, scales, False)
            public = analyse_module(mod, tuple(t.detach().clone().requires_grad_(t.requires_grad) for t in ins) if len(ins) > 1 else ins[0].detach().clone().requires_grad_(), bwd[0] if bwd else None, syntax_highlight=False) if label != "random graph" else None
        except Exception as ex:
            rep.beyond(f"analyse_module pipeline raised {type(ex).__name__}: {str(ex)[:120]} on {label}")
            continue
        lines = abstract_lines(gmod.code)
        def show(sp: Any) -> str:      # the documented rendering, written independently of ScalePair.__str__: "n/a" ONLY for "nothing recorded"
            fw = f"{sp.forward:.3}" if sp.forward is not None else "n/a"
            bw = f"{sp.backward:.3}" if sp.backward is not None else "n/a"
            return f"(-> {fw}, <- {bw})"

        cases.append({"lines": [{k: l[k] for k in ("k", "name", "args")} for l in lines], "scales": [[k, show(v)] for k, v in scales.items()]})
        texts.append((lines, text, public))
        labels.append(label)
        rep.case(("annotate", i), nontrivial=True)
    if not cases:
        return
    ev = common.tlc_eval("Annotate_Eval", "Annotate_Eval.cfg", cases, tag="anneval", timeout=600)
    rep.states += ev["states"]
    rep.transitions += ev["transitions"]
    for (lines, text, public), e, label in zip(texts, ev["out"], labels):
        if not (e["tracked"] and e["nothing_else"]):
            raise common.MachineryError("Annotate_Eval: spec-internal property fails")
        exp = [[lines[o["src"] - 1]["head"], list(o["anns"])] for o in e["out"]]
        obs = [[ln.strip().split(" ")[0], re.findall(r"\(-> [^()]*\)", ln.split(";  ")[-1] if ";  " in ln else (ln.split(":  ")[-1] if ln.strip().startswith("def ") and ":  " in ln else ""))] for ln in text.splitlines()]
        if obs != exp:
            k = next((j for j in range(min(len(obs), len(exp))) if obs[j] != exp[j]), min(len(obs), len(exp)))
            if [o[0] for o in obs] == [e_[0] for e_ in exp] and [len(o[1]) for o in obs] == [len(e_[1]) for e_ in exp]:
                # same lines, same number of annotations, but a VALUE is reported differently from what was recorded (e.g. a recorded
                # standard deviation of 0.0 shown as "n/a", the marker of "no gradient reached this tensor"): analyse_module's metrics
                rep.violation(f"analyse_module ({label}): line {k} reports {obs[k]}, the recorded scales are {exp[k]}", {"label": label, "line": k, "reported": obs[k], "recorded": exp[k]}, key="analyse_module_reports_other_value")
            else:
                rep.beyond(f"utils._annotate ({label}): line {k}: text has {obs[k] if k < len(obs) else None}, spec Annotate.tla expects {exp[k] if k < len(exp) else None}")
        if public is not None and [re.sub(r"\(->[^()]*\)", "", a) for a in public.splitlines()] != [re.sub(r"\(->[^()]*\)", "", a) for a in text.splitlines()]:
            rep.beyond(f"analyse_module ({label}) does not return _annotate(traced code, recorded scales)")
    rep.extra["annotate_cases"] = len(cases)


HIST = [("all",), ("all",), ("all", "none"), ("all", "first"), ("none", "all", "none"), ("first", "all")]


def generate(gen: List[Any]) -> Optional[List[Dict[str, Any]]]:
    """One self-contained case: gen = [family, case seed, ...]; recorded in every trace so that a replay re-creates it."""
    crng = random.Random(gen[1])
    if gen[0] == "backend":
        ts = trace_backend(crng, gen[2], tuple(gen[3]))
    elif gen[0] == "backend_real":
        ts = trace_backend_real(crng, gen[2], gen[4], tuple(gen[3]))
    elif gen[0] == "analyse":
        t = trace_analyse(crng, gen[2])
        ts = None if t is None else [t]
    else:
        ts = trace_dynamo(crng, gen[2], tuple(gen[3]))
    for t in ts or []:
        t["gen"] = gen
    return ts


def judge(rep: Report, traces: List[Dict[str, Any]]) -> None:
    payload = [{"kind": t["kind"], "same_out": t["same_out"], "same_grad": t["same_grad"],
                "nodes": [dict({"fwd_bad": "", "bwd_bad": ""}, **{k: v for k, v in n.items() if k != "name"}) for n in t["nodes"]]} for t in traces]
    B = 400
    for i in range(0, len(payload), B):
        out = common.validate_traces("TrackScales_Trace", "TrackScales_Trace.cfg", payload[i : i + B], timeout=1800, tag="tstr")
        rep.add_trace_result(out)
        for (l, k, clause) in out["fails"]:
            t = traces[i + l - 1]
            node = t["nodes"][k - 1] if k >= 1 else None
            if clause.startswith("harness_"):
                raise common.MachineryError(f"TrackScales_Trace: {clause}")
            rep.violation(f"{t['kind']} run: {clause}" + (f" at node {node['name']}: recorded fwd={node['fwd']} bwd={node['bwd']} captured fwd={node['cf']} bwd={node['cb']}" if node else "") + f"; module:\n{t['code'][:400]}",
                          {"gen": t.get("gen"), "trace": {k2: v for k2, v in t.items() if k2 != "code"}, "clause": clause, "node": k, "code": t["code"]}, key=f"{clause}:{t['kind']}")


def run(rep: Report, tier: str) -> None:
    rng = random.Random(common.seed() * 47 + 14)
    torch.manual_seed(common.seed())
    torch.set_num_threads(2)
    quick = tier == "quick"
    res = common.run_tlc("TrackScales_MC", "TrackScales_MC.cfg" if quick else "TrackScales_MC_full.cfg", coverage=True, timeout=3000, tag="ts")
    common.tlc_must_pass(res, "TrackScales_MC")
    rep.add_tlc(res)
    r = common.run_tlc("TrackScales_MC", "TrackScales_MC_tracker_detaches.cfg", timeout=300, tag="tsleg")
    common.tlc_must_fail(r, "TrackScales Legacy=tracker_detaches", "C18Design")
    rep.extra["l2_refuted_deviations"] = [{"legacy": "tracker_detaches", "violated": r.violated_invariant}]
    if not quick:
        rs = common.run_tlc("TrackScales_MC", "TrackScales_MC_3.cfg", timeout=1500, tag="tssim", simulate="num=3000", depth=8)
        if rs.violated_invariant:
            raise common.MachineryError(f"TrackScales_MC simulation (3 ops) refuted {rs.violated_invariant}")
        rep.add_tlc(rs, with_cov=False)
    traces: List[Dict[str, Any]] = []
    skipped = 0
    gens: List[List[Any]] = []
    for i in range(150 if quick else 1500):
        gens.append(["backend", rng.randrange(1 << 30), rng.randint(1, 7), list(HIST[i % len(HIST)])])
    for i in range(60 if quick else 900):
        gens.append(["backend_real", rng.randrange(1 << 30), rng.randint(1, 7), list(HIST[i % len(HIST)]), ("f64", "f64", "f32")[i % 3]])
    for i in range(40 if quick else 400):
        gens.append(["analyse", rng.randrange(1 << 30), rng.randint(1, 6)])
    for v in range(4 if quick else 12):
        gens.append(["dynamo", rng.randrange(1 << 30), v, list([("all", "none"), ("all", "all@2"), ("none", "all", "none"), ("all", "none@2", "all")][v % 4])])
    for i, gen in enumerate(gens):
        ts = generate(gen)
        if ts is None:
            skipped += 1
            continue
        traces += ts
        rep.case((gen[0], i), nontrivial=len(ts[0]["nodes"]) >= 4)
    res_a = common.run_tlc("Annotate_MC", "Annotate_MC.cfg", timeout=300, tag="annmc")
    common.tlc_must_pass(res_a, "Annotate_MC")
    rep.add_tlc(res_a, with_cov=False)
    annotate_cases(rep, rng, 16 if quick else 200)
    rep.extra["graphs_skipped_values_out_of_exact_range"] = skipped
    judge(rep, traces)
    rep.rule = "random module graphs with 1-7 ops (direct backend), analyse_module's interpreter, and a module family through TorchDynamo; integer-valued inputs with zeros; graphs whose intermediate values leave the exactly representable range (|v| > 64) are skipped; non-trivial = at least 4 nodes"
    if traces:
        t = traces[len(traces) // 2]
        rep.sample({"kind": t["kind"], "node": t["nodes"][-1]})
    rep.assumptions += ["independent capture: plain fx.Interpreter run of the same graph with retain_grad (total gradients)", "std is compared through std^2*n(n-1) with a slack of 8 + exact/2^18 (float32 metrics)"]


def replay(rep: Report, path: str) -> None:
    """Re-creates exactly the recorded case (family + case seed) on the current code."""
    d = json.load(open(path))
    gen = d["case"].get("gen")
    rep.case("replay")
    rep.case(json.dumps(gen))
    rep.sample({"gen": gen, "clause": d["case"].get("clause")})
    torch.set_num_threads(2)
    if not gen:
        run(rep, "quick")
        return
    judge(rep, generate(gen) or [])
