"""C17 -- transforms are non-destructive and compose in any order.

L2: Transforms_MC: every history of Apply/Call actions with <= 4 modules and <= 3 calls (unit_scale at most once and one
    format simulation per lineage, track/compile last; transforms may branch from any existing module and calls may be
    interleaved): the original is never touched, every pipeline is canonical (each transform once, unit scaling before
    quantisation, track/compile last), the pipeline in effect at a call is the module's own (never a stale inherited
    one), same transform set => same pipeline, repeated calls do not re-run; deviations stale_cache / no_reorder refuted.
L3 (B): histories replayed on a family of real modules: after every step the harness records which unit-scaling /
    quantisation backends actually ran (library log records), a bitwise fingerprint of outputs + gradients (seeds
    pinned), whether any OTHER module's parameters / buffers changed and whether storage is shared; Transforms_Trace
    validates each history step by step.
"""
from __future__ import annotations

import hashlib
import itertools
import json
import logging
import random
from typing import Any, Dict, List, Optional, Tuple

import torch
import torch.nn.functional as F
from torch import nn

from . import common
from .common import Report


class MLP(nn.Module):
    def __init__(self):
        super().__init__()
        self.a = nn.Linear(8, 16)
        self.b = nn.Linear(16, 8)

    def forward(self, x):
        return self.b(F.gelu(self.a(x)))


class ResBlock(nn.Module):
    def __init__(self):
        super().__init__()
        self.ln = nn.LayerNorm(8)
        self.fc = nn.Linear(8, 8)
        self.register_buffer("scale", torch.tensor(1.5))

    def forward(self, x):
        return (x + self.fc(F.gelu(self.ln(x)))) * self.scale


class AttnBlock(nn.Module):
    def __init__(self):
        super().__init__()
        self.qkv = nn.Linear(8, 24, bias=False)
        self.o = nn.Linear(8, 8)

    def forward(self, x):
        q, k, v = self.qkv(x).chunk(3, dim=-1)
        return x + self.o(F.scaled_dot_product_attention(q, k, v))


class UBlock(nn.Module):
    def __init__(self):
        super().__init__()
        import unit_scaling as uu

        self.l1 = uu.Linear(8, 12)     # non-square: constraints give different scales
        self.l2 = uu.Linear(12, 8, bias=True)

    def forward(self, x):
        import unit_scaling.functional as U

        return self.l2(U.gelu(self.l1(x)))


FAMILY = [MLP, ResBlock, AttnBlock, UBlock]


def fmt_of(kind: str):
    from unit_scaling.formats import FPFormat

    return {"q1": (FPFormat(8, 23, "nearest"), FPFormat(8, 23, "nearest")), "q2": (FPFormat(5, 2, "nearest"), FPFormat(5, 2, "nearest")),
            "q3": (FPFormat(4, 3), FPFormat(5, 2))}[kind]


class LogTap(logging.Handler):
    def __init__(self):
        super().__init__(level=logging.INFO)
        self.events: List[str] = []

    def emit(self, record: logging.LogRecord) -> None:
        msg = record.getMessage()
        if msg == "running unit scaling backend":
            self.events.append("us")
        elif msg == "running quantisation backend":
            self.events.append("q")


def state_hash(m: nn.Module) -> str:
    h = hashlib.sha1()
    for k, v in sorted(m.state_dict().items()):
        h.update(k.encode())
        h.update(v.detach().contiguous().numpy().tobytes())
    return h.hexdigest()


def ptrs(m: nn.Module) -> set:
    return {p.data_ptr() for p in list(m.parameters()) + list(m.buffers())}


class World:
    def __init__(self, cls, seed: int):
        torch.manual_seed(seed)
        self.mods: List[nn.Module] = [cls()]
        self.kinds: List[List[str]] = [[]]       # lineage kinds per module (harness bookkeeping for naming q backends)
        self.hashes: List[str] = [state_hash(self.mods[0])]
        self.x = torch.randn(2, 4, 8, generator=torch.Generator().manual_seed(seed + 7))
        self.fps: Dict[str, int] = {}
        self.tap = LogTap()

    def others_unchanged(self, skip: Optional[int]) -> bool:
        ok = True
        for i, m in enumerate(self.mods):
            if i == skip:
                continue
            if state_hash(m) != self.hashes[i]:
                ok = False
        return ok

    def observed_backends(self, m: nn.Module, lineage: List[str]) -> List[str]:
        out = []
        qk = [k for k in lineage if k.startswith("q")]
        for b in getattr(m, "backends", []):
            qn = getattr(b, "__qualname__", type(b).__name__)
            if "unit_scaling_backend" in qn:
                out.append("us")
            elif "quantisation_backend" in qn:
                out.append(qk[0] if qk else "q?")
            elif "ScaleTrackingBackend" in qn or type(b).__name__ == "ScaleTrackingBackend":
                out.append("track")
            else:
                out.append("compile")
        return out

    def apply(self, src: int, kind: str) -> Dict[str, Any]:
        from unit_scaling.transforms import compile as ucompile, simulate_format, track_scales, unit_scale

        m = self.mods[src - 1]
        if kind == "us":
            new = unit_scale(m)
        elif kind in ("q1", "q2", "q3"):
            f, b = fmt_of(kind)
            new = simulate_format(m, f, b)
        elif kind == "track":
            new = track_scales(m)
        else:
            new = ucompile(m)
        lineage = self.kinds[src - 1] + [kind]
        self.mods.append(new)
        self.kinds.append(lineage)
        self.hashes.append(state_hash(new))
        disjoint = all(not (ptrs(new) & ptrs(o)) for o in self.mods[:-1])
        return {"a": "apply", "m": src, "kind": kind, "backends": self.observed_backends(new, lineage), "rerun": bool(getattr(new, "rerun_transform", False)),
                "disjoint": bool(disjoint), "unchanged": self.others_unchanged(len(self.mods) - 1)}

    def call(self, mi: int) -> Dict[str, Any]:
        m = self.mods[mi - 1]
        lineage = self.kinds[mi - 1]
        for p in m.parameters():
            p.grad = None
        loggers = [logging.getLogger("unit_scaling.transforms._unit_scale"), logging.getLogger("unit_scaling.transforms._simulate_format")]
        old = [(lg.level, lg.propagate) for lg in loggers]
        for lg in loggers:
            lg.addHandler(self.tap)
            lg.setLevel(logging.INFO)
        self.tap.events = []
        x = self.x.clone().requires_grad_()
        err = ""
        try:
            torch.manual_seed(4242)
            y = m(x)
            y = y[0] if isinstance(y, tuple) else y
            y.sum().backward()
            h = hashlib.sha1()
            h.update(y.detach().contiguous().numpy().tobytes())
            h.update(x.grad.contiguous().numpy().tobytes())
            for k, p in sorted(m.named_parameters()):
                h.update(k.encode())
                h.update(b"none" if p.grad is None else p.grad.contiguous().numpy().tobytes())
            digest = h.hexdigest()
        except Exception as ex:
            err = f"{type(ex).__name__}: {str(ex)[:160]}"
            digest = "error:" + err
        finally:
            for lg, (lv, pr) in zip(loggers, old):
                lg.removeHandler(self.tap)
                lg.setLevel(lv)
        for p in m.parameters():
            p.grad = None
        fp = self.fps.setdefault(digest, len(self.fps) + 1)
        qk = [k for k in lineage if k.startswith("q")]
        ran = [("us" if e == "us" else (qk[0] if qk else "q?")) for e in self.tap.events]
        return {"a": "call", "m": mi, "ran": ran, "fp": fp, "unchanged": self.others_unchanged(mi - 1) and state_hash(m) == self.hashes[mi - 1], "err": err}


def histories(rng: random.Random, quick: bool, with_compile: bool) -> List[List[Tuple[Any, ...]]]:
    """Each history: list of ("apply", src, kind) / ("call", m).  Module indices refer to creation order (1 = original)."""
    H: List[List[Tuple[Any, ...]]] = []
    qkinds = ["q1", "q2"] if quick else ["q1", "q2", "q3"]      # q1 = the lossless E8M23 pair (its own code path in quantise: nothing to clip)
    for qk in qkinds:
        # both orders of {us, q} in ONE history, the second with calls between the transforms (stale caches), + repeated calls
        H.append([("call", 1), ("apply", 1, "us"), ("apply", 2, qk), ("call", 3), ("call", 3),
                  ("apply", 1, qk), ("call", 4), ("apply", 4, "us"), ("call", 5), ("call", 1), ("call", 2), ("call", 4)])
        # same, the other way round: quantise first without intermediate call; then unit_scale -> call -> quantise
        H.append([("apply", 1, qk), ("apply", 2, "us"), ("call", 3), ("apply", 1, "us"), ("call", 4), ("call", 4), ("apply", 4, qk), ("call", 5), ("call", 3), ("call", 1)])
    tails = ["track"] + (["compile"] if with_compile else [])
    for tail in tails:
        qk = rng.choice(qkinds)
        H.append([("apply", 1, "us"), ("apply", 2, tail), ("call", 3), ("call", 3), ("call", 2), ("call", 1)])
        if tail == "track":
            H.append([("apply", 1, qk), ("call", 2), ("apply", 2, "us"), ("apply", 3, tail), ("call", 4), ("apply", 1, "us"), ("apply", 5, qk), ("call", 6), ("call", 4)])
    if not quick:
        # random histories within the quantifier
        for _ in range(6):
            h: List[Tuple[Any, ...]] = []
            lin: List[List[str]] = [[]]
            for _ in range(rng.randint(3, 7)):
                if rng.random() < 0.5 and len(lin) < 6:
                    src = rng.randrange(len(lin))
                    S = set(lin[src])
                    opts = [k for k in ["us"] + qkinds + ["track"] if not (S & {"track", "compile"}) and not (k == "us" and "us" in S) and not (k.startswith("q") and any(s.startswith("q") for s in S))]
                    if opts:
                        k = rng.choice(opts)
                        h.append(("apply", src + 1, k))
                        lin.append(lin[src] + [k])
                        continue
                h.append(("call", rng.randrange(len(lin)) + 1))
            H.append(h)
    return H


# ---------------------------------------------------------------------- growth item: torch_nn_modules_to_user_modules
class _Box(nn.Module):
    """A user-defined container (its class does not live in torch.nn)."""


def to_user_cases(rep: Report, quick: bool) -> None:
    """spec/ToUser.tla, direction A: TLC enumerates every module DAG with <= 3 (thorough 4) modules -- instances shared
    between names and between parents included -- with the expected unfolding after the transform; each is built from real
    torch.nn / user modules and converted by the real helper.  BEYOND the listed properties: reported with rep.beyond."""
    from collections import OrderedDict

    from unit_scaling.transforms.utils import torch_nn_modules_to_user_modules

    res = common.run_tlc("ToUser_MC", "ToUser_MC_emit.cfg" if quick else "ToUser_MC_4_emit.cfg", workers=1, timeout=900, tag="touser")
    common.tlc_must_pass(res, "ToUser_MC")
    rep.add_tlc(res, with_cov=False)
    r = common.run_tlc("ToUser_MC", "ToUser_MC_noleft.cfg", timeout=300, tag="touserleg")
    common.tlc_must_fail(r, "ToUser non-vacuity (an instance registered twice leaves a torch.nn module)", "InvNoLeftovers")
    cases = res.printed("TOUSER")
    if len(cases) < 50:
        raise common.MachineryError(f"ToUser_MC emitted only {len(cases)} cases")

    def canon(entries):
        entries = sorted(([list(p), c, i] for p, c, i in entries), key=lambda e: e[0])
        ids: Dict[Any, int] = {}
        return [[p, c, ids.setdefault(i, len(ids))] for p, c, i in entries]

    def kind(m: nn.Module) -> str:
        if type(m).__name__.startswith("trivial_subclass_"):
            return "triv"
        return "torch" if type(m).__module__.startswith(("torch.nn.", "torch.ao.")) else "user"

    bad = 0
    for c in cases:
        n = len(c["cls"])
        inst: Dict[int, nn.Module] = {}
        for m in range(n, 0, -1):
            kids = [(k[0], inst[k[1]]) for k in c["kids"][m - 1]]
            if c["cls"][m - 1] == "torch":
                inst[m] = nn.Sequential(OrderedDict(kids)) if kids else nn.Linear(2, 2)
                if len(kids) == 2 and kids[0][1] is kids[1][1]:
                    pass    # the same instance under two names: allowed by nn.Sequential
            else:
                inst[m] = _Box()
                for name, child in kids:
                    inst[m].add_module(name, child)
        before = {m: (mod, mod._modules, mod._parameters) for m, mod in inst.items()}
        rep.case(("to_user", json.dumps([c["cls"], c["kids"]])), nontrivial=n >= 3)
        try:
            torch_nn_modules_to_user_modules(inst[1])
        except Exception as ex:
            rep.beyond(f"torch_nn_modules_to_user_modules raised {type(ex).__name__}: {str(ex)[:100]} on cls={c['cls']} kids={c['kids']}")
            continue
        obs = []

        def walk(mod: nn.Module, path: List[str]) -> None:
            obs.append((tuple(path), kind(mod), id(mod)))
            for name, child in mod._modules.items():
                walk(child, path + [name])

        walk(inst[1], [])
        if canon(obs) != canon([(tuple(e[0]), e[1], e[2]) for e in c["expect"]]):
            bad += 1
            rep.beyond(f"torch_nn_modules_to_user_modules on cls={c['cls']} kids={c['kids']}: unfolding {canon(obs)} != spec ToUser.tla {canon([(tuple(e[0]), e[1], e[2]) for e in c['expect']])}")
            continue
        # replacements subclass the original's class and share its state objects (the function computed is unchanged)
        for (path, k, _), in zip(obs):
            mod = inst[1]
            for name in path:
                mod = mod._modules[name]
            if k == "triv":
                olds = [o for (o, d, pp) in before.values() if d is mod._modules and pp is mod._parameters]
                if not olds or not isinstance(mod, type(olds[0])):
                    rep.beyond(f"torch_nn_modules_to_user_modules: replacement at {'.'.join(path)} does not share the original's state / subclass its type")
    rep.extra["to_user_cases"] = len(cases)


def tlc_histories(rep: Report, rng: random.Random, quick: bool) -> Tuple[List[List[Tuple[Any, ...]]], List[List[Tuple[Any, ...]]]]:
    """Direction A: histories generated by TLC from spec/Transforms_Gen.tla -- every maximal history with <= 3 modules and
    3 calls over {us, q2, track} (exhaustive mode), and random histories with <= 5 modules / 5 calls over all format kinds
    (-simulate).  quick replays a sample of the first set, thorough all of it plus the simulated ones."""
    def conv(h):
        return [("apply", e[1], e[2]) if e[0] == "apply" else ("call", e[1]) for e in h]

    res = common.run_tlc("Transforms_Gen", "Transforms_Gen.cfg", workers=1, timeout=600, tag="trgen")
    common.tlc_must_pass(res, "Transforms_Gen")
    rep.add_tlc(res, with_cov=False)
    seen, small = set(), []
    for h in res.printed("HIST"):
        k = json.dumps(h)
        if k not in seen:
            seen.add(k)
            small.append(conv(h))
    if not small:
        raise common.MachineryError("Transforms_Gen emitted no history")
    rep.extra["tlc_generated_histories_exhaustive_3x3"] = len(small)
    if quick:
        pick = rng.sample(small, 30)
        # the generated histories name the format simulation "q2"; every other one is replayed with the lossless pair q1 instead
        return [[tuple("q1" if (i % 2 and x == "q2") else x for x in st) for st in h] for i, h in enumerate(pick)], []
    sim = common.run_tlc("Transforms_Gen", "Transforms_Gen_sim.cfg", workers=1, timeout=900, tag="trgensim", simulate="num=400", depth=12, extra=["-seed", str(common.seed() + 1)])
    if sim.violated_invariant:
        raise common.MachineryError(f"Transforms_Gen simulation refuted {sim.violated_invariant}")
    big = []
    for h in sim.printed("HIST"):
        k = json.dumps(h)
        if k not in seen:
            seen.add(k)
            big.append(conv(h))
    rep.extra["tlc_generated_histories_simulated_5x5"] = len(big)
    return small, rng.sample(big, min(len(big), 400))


def play(rep: Report, jobs: List[Tuple[Any, int, List[Tuple[Any, ...]]]]) -> None:
    """Runs every (module class, history) on real modules and validates the recorded runs with Transforms_Trace."""
    traces: List[List[Dict[str, Any]]] = []
    meta: List[Dict[str, Any]] = []
    for hi, (cls, ci, h) in enumerate(jobs):
        w = World(cls, seed=100 + ci)
        steps = []
        for st in h:
            try:
                steps.append(w.apply(st[1], st[2]) if st[0] == "apply" else w.call(st[1]))
            except Exception as ex:
                rep.violation(f"{cls.__name__}: step {st} of history {h} raised {type(ex).__name__}: {str(ex)[:160]}", {"meta": {"module": cls.__name__, "ci": ci, "history": [list(s_) for s_ in h]}, "step": list(st)}, key=f"raised:{st[0]}:{st[-1] if st[0] == 'apply' else 'call'}")
                break
            if steps[-1].get("err"):
                rep.violation(f"{cls.__name__}: call in history {h} raised {steps[-1]['err']}", {"meta": {"module": cls.__name__, "ci": ci, "history": [list(s_) for s_ in h]}, "step": list(st)}, key="raised:call")
        traces.append([{k: v for k, v in s.items() if k != "err"} for s in steps])
        meta.append({"module": cls.__name__, "ci": ci, "history": [list(s) for s in h]})
        rep.case((cls.__name__, hi, json.dumps(meta[-1]["history"])), nontrivial=sum(1 for s in h if s[0] == "apply") >= 2)
    out = common.validate_traces("Transforms_Trace", "Transforms_Trace.cfg", traces, timeout=900, tag="trtr")
    rep.add_trace_result(out)
    for (l, k, clause) in out["fails"]:
        if clause.startswith("harness_"):
            raise common.MachineryError(f"Transforms_Trace: {clause}")
        rep.violation(f"{meta[l - 1]['module']}: history {meta[l - 1]['history']}: {clause} at step {k}: {traces[l - 1][k - 1] if k else ''}",
                      {"meta": meta[l - 1], "trace": traces[l - 1], "step": k, "clause": clause}, key=f"{clause}")
    if traces:
        rep.sample({"meta": meta[0], "trace": traces[0][:4]})


def run(rep: Report, tier: str) -> None:
    rng = random.Random(common.seed() * 67 + 20)
    torch.set_num_threads(2)
    quick = tier == "quick"
    res = common.run_tlc("Transforms_MC", "Transforms_MC.cfg" if quick else "Transforms_MC_5.cfg", coverage=True, timeout=1800, tag="trmc")
    common.tlc_must_pass(res, "Transforms_MC")
    rep.add_tlc(res)
    for leg, inv in (("stale_cache", "EffectiveIsOwn"), ("no_reorder", None)):   # no_reorder already falsifies the inductive ASSUME
        r = common.run_tlc("Transforms_MC", f"Transforms_MC_{leg}.cfg", timeout=300, tag="trleg")
        common.tlc_must_fail(r, f"Transforms Legacy={leg}", inv)
        rep.extra.setdefault("l2_refuted_deviations", []).append({"legacy": leg, "violated": r.violated_invariant})
    fam = [MLP, UBlock] if quick else FAMILY
    jobs: List[Tuple[Any, int, List[Tuple[Any, ...]]]] = []
    for ci, cls in enumerate(fam):
        hs = histories(rng, quick, with_compile=not quick and ci == 0)
        if quick:
            hs = hs if ci == 0 else hs[1::2]
        jobs += [(cls, ci, h) for h in hs]
    small, big = tlc_histories(rep, rng, quick)
    jobs += [(fam[0], 0, h) for h in small]
    jobs += [(fam[i % len(fam)], i % len(fam), h) for i, h in enumerate(big)]
    play(rep, jobs)
    to_user_cases(rep, quick)
    rep.rule = "histories of transforms and calls (both orders of unit_scale / format simulation in one history, calls between transforms, repeated calls, branching from earlier modules, track as last transform; thorough: 3 format kinds, compile, random histories) on a family of small modules; plus histories GENERATED BY TLC from Transforms_Gen (quick: 30 of the 1170 maximal histories with 3 modules x 3 calls; thorough: all of them and up to 400 simulated 5x5 histories); non-trivial = at least two transforms"
    rep.assumptions += ["'ran' is read off the library's own log records; fingerprints are sha1 of output + input gradient + parameter gradients with seeds pinned",
                        "compile (Inductor) only in the thorough tier"]


def replay(rep: Report, path: str) -> None:
    """Re-runs exactly the recorded (module class, history) on the current code."""
    d = json.load(open(path))
    m = d["case"].get("meta", {})
    rep.case("replay")
    cls = {c.__name__: c for c in FAMILY}[m["module"]]
    h = [tuple(st) for st in m["history"]]
    torch.set_num_threads(2)
    play(rep, [(cls, int(m.get("ci", 0)), h)])
