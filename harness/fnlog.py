"""Call log of unit_scaling.functional for ScaledOps_Trace (C01, C02, C20)."""
from __future__ import annotations

import random
from typing import Any, Callable, Dict, List, Optional, Tuple

from . import ops

RES_TOL = {"f64": 1e-9, "f32": 2e-4, "bf16": 6e-2, "f16": 2e-2}
CLS_TOL = {"f64": 1e-9, "f32": 2e-4, "bf16": 6e-2, "f16": 2e-2}
SKIPPED = {"ill_conditioned_gradient_slots": 0}
F32_INTERNAL = {"rms_norm"}   # statistic computed in float32 whatever the input dtype (documented in DESIGN.md)


def tol_of(cfg: Dict[str, Any]) -> Tuple[float, float]:
    dt = cfg.get("dtype", "f64")
    if dt == "f64" and cfg["op"] in F32_INTERNAL:
        return 5e-6, 5e-6
    return RES_TOL[dt], CLS_TOL[dt]


class Classes:
    """Factor classes per (cfg, slot): equal within tolerance -> same id."""

    def __init__(self, raw: bool = False) -> None:
        self.rep: Dict[Tuple[int, str], List[float]] = {}
        self.raw = raw

    def cls(self, key: Tuple[int, str], f: float, tol: float) -> Any:
        if self.raw:
            return ["raw", float(f)]      # resolved later by the parent process (resolve_raw)
        reps = self.rep.setdefault(key, [])
        for i, r in enumerate(reps):
            if abs(f - r) <= tol * max(abs(r), 1e-300):
                return i + 1
        reps.append(f)
        return len(reps)


def events_for_cfg(cid: int, cfg: Dict[str, Any], want_fwd: bool, want_bwd: bool, classes: Classes, mode: str = "eager",
                   runner: Optional[Callable] = None, draws=((0, 0), (1, 0), (1, 1), (0, 0))) -> Tuple[List[List[Any]], List[Dict[str, Any]]]:
    """Events (see ScaledOps_Trace) + raw observations for one configuration."""
    rt, ct = tol_of(cfg)
    ev: List[List[Any]] = []
    raw = []
    op = cfg["op"]
    for (draw, up) in draws:
        o = ops.probe(cfg, draw, up, backward=want_bwd, runner=runner)
        raw.append(o)
        if o["err"] is not None:
            ev.append(["err", op, cid, "", 0, 1, 0, 0, 0, 0, 0, ""])
            continue
        if want_fwd:
            ev.append(["err", op, cid, "", 0, 0, 0, 0, 0, 0, 0, ""])
        if not o["shape_ok"]:
            ev.append(["fwd", op, cid, "out", 0, 0, int(o["dtype_ok"]), int(o["unmodified"]), 1, 1, 1, ""])
            continue
        if want_fwd:
            if o["fwd_zero_ref"]:
                ev.append(["fwd", op, cid, "out", classes.cls((cid, "out"), 1.0, ct) if op in ops.EXACT1 else 0, 1, int(o["dtype_ok"]), int(o["unmodified"]), 1, 1, 1, "zero_reference"])
                # class 0 would poison the memo: only emit when the factor is defined
                ev.pop()
            else:
                f = o["fwd"]
                ev.append(["fwd", op, cid, "out", classes.cls((cid, "out"), f, ct), 1, int(o["dtype_ok"]), int(o["unmodified"]),
                           int(o["fwd_res"] <= rt), int(f > 0), int(abs(f - 1.0) <= ct), ""])
        if want_bwd:
            for slot, b in o.get("bwd", {}).items():
                if b["f"] is None:
                    lost = b["none"][0] and not b["none"][1]
                    if lost:
                        ev.append(["bwd", op, cid, slot, 0, 1, 1, 1, 0, 1, 1, "no_gradient"])
                    continue
                if b["zero_ref"]:
                    continue
                if op in ("rms_norm", "layer_norm") and slot == "input" and all(int(d) == 1 for d in cfg["norm_shape"]):
                    # a single normalised element: d/dx [x / sqrt(x^2 + eps)] = eps / (x^2 + eps)^1.5 is ~1e-5 of the natural
                    # scale, i.e. pure rounding noise of the (float32) statistic: the gradient factor is ill-conditioned, not wrong
                    continue
                if b.get("noise") is not None and b["noise"] > ct / 8:
                    SKIPPED["ill_conditioned_gradient_slots"] += 1    # see ops._calibrate
                    continue
                ev.append(["bwd", op, cid, slot, classes.cls((cid, slot), b["f"], ct), int(b["shape_ok"]), int(b["dtype_ok"]), 1,
                           int(b["res"] <= rt), int(b["f"] > 0), 1, ""])
    return ev, raw


def error_events(cid0: int, rng: random.Random) -> Tuple[List[List[Any]], List[Dict[str, Any]]]:
    ev = []
    cfgs = ops.error_configs(rng)
    for i, c in enumerate(cfgs):
        o = ops.probe({k: v for k, v in c.items() if k != "expect"}, 0, backward=False)
        kind, _, arg = c["expect"].partition(":")
        ev.append(["err", c["op"], cid0 + i, arg, 0, int(o["err"] is not None), 0, 0, 0, 0, 0, kind])
    return ev, cfgs


VARIANT_KEYS = ("grad_only", "layout", "call_style")


def family_ids(cfgs: List[Dict[str, Any]]) -> List[int]:
    """Configuration ids for the call log: variants that are THE SAME CALL semantically (non-contiguous inputs, arguments passed by
    keyword, only some slots requiring grad) share the id of their base configuration, so ScaledOps_Trace's memo demands the
    same factor of all of them."""
    import json

    ids: Dict[str, int] = {}
    out = []
    for c in cfgs:
        key = json.dumps({k: v for k, v in c.items() if k not in VARIANT_KEYS}, sort_keys=True, default=str)
        out.append(ids.setdefault(key, len(ids) + 1))
    return out


# ---------------------------------------------------------------------- process-history independence
def _other_history_worker(args: Tuple[List[Dict[str, Any]], bool, bool, int]) -> List[Tuple[int, List[List[Any]]]]:
    """Runs in a FRESH interpreter: the same configurations in REVERSE order, one data draw each."""
    import torch

    cfgs, cids, want_fwd, want_bwd, threads = args
    torch.set_num_threads(threads)
    torch.manual_seed(0)
    classes = Classes(raw=True)
    out = []
    for pos in range(len(cfgs) - 1, -1, -1):
        ev, _ = events_for_cfg(cids[pos], cfgs[pos], want_fwd, want_bwd, classes, draws=((0, 0),))
        out.append((pos, ev))
    return out


def other_history_events(cfgs: List[Dict[str, Any]], cids: List[int], want_fwd: bool, want_bwd: bool, classes: Classes, threads: int = 4) -> List[List[Any]]:
    """"A scalar fixed by shapes and hyper-parameters alone" cannot depend on what the process did before: the configurations
    are run again in a fresh interpreter in reverse order and their events join the SAME call log (same configuration ids),
    so that ScaledOps_Trace's memo rejects a factor that differs between the two histories."""
    import multiprocessing as mp

    with mp.get_context("spawn").Pool(1) as pool:
        res = pool.apply(_other_history_worker, ((cfgs, cids, want_fwd, want_bwd, threads),))
    events: List[List[Any]] = []
    for pos, ev in res:
        _, ct = tol_of(cfgs[pos])
        for e in ev:
            if isinstance(e[4], list) and e[4] and e[4][0] == "raw":
                e[4] = classes.cls((cids[pos], e[3]), e[4][1], ct)
            events.append(e)
    return events
