"""C02 -- gradients are PyTorch's gradients times per-input data-independent scalars.

L2: Tape_MC phase "prim": all chains of <= 3 scale_fwd / scale_bwd with signed rational factors (zero, negative,
    +-1000 included): value multiplier = product of forward factors, gradient multiplier = product of backward
    factors, the other pass untouched; deviation "fwd_touches_bwd" refuted.  ScaledOps_MC for the tables.
L3: (A) every chain emitted by TLC is replayed on the real primitives (several shapes / dtypes).
    (B) the C01 configurations x every differentiable input x two data draws x two upstream gradients + a repeated
    call: .grad of the unit-scaled call vs autograd of the reference (sum-reduced reference for mean losses);
    the log is validated by ScaledOps_Trace (one factor class per (configuration, input), positive, exact direction).
"""
from __future__ import annotations

import json
import random
from fractions import Fraction
from typing import Any, Dict, List

import torch

from . import common, fnlog, ops
from .common import Report
from .c01 import validate


def replay_chain(rep: Report, rec: Dict[str, Any], rng: random.Random) -> None:
    from unit_scaling.scale import scale_bwd, scale_fwd

    shape = rng.choice([(), (3,), (2, 3), (2, 1, 2), (0,)])
    dt = rng.choice([torch.float64, torch.float64, torch.float32])
    x = torch.randn(shape, dtype=dt).requires_grad_(True)
    y = x
    for (kind, s) in rec["ch"]:
        f = s[0] / s[1] if rng.random() < 0.5 or s[1] != 1 else int(s[0])   # python ints and floats
        y = scale_fwd(y, f) if kind == "fwd" else scale_bwd(y, f)
    up = torch.randn(shape, dtype=dt)
    (g,) = torch.autograd.grad(y, x, up) if y.requires_grad else (None,)
    ef = Fraction(rec["f"][0], rec["f"][1])
    eb = Fraction(rec["b"][0], rec["b"][1])
    tol = 1e-12 if dt == torch.float64 else 1e-5
    okf = torch.allclose(y.detach().double(), x.detach().double() * float(ef), rtol=tol, atol=0) and y.shape == x.shape and y.dtype == x.dtype
    okb = g is not None and torch.allclose(g.double(), up.double() * float(eb), rtol=tol, atol=0) and g.shape == x.shape and g.dtype == x.dtype
    rep.case(("chain", json.dumps(rec["ch"])), nontrivial=len(rec["ch"]) >= 2)
    if not (okf and okb):
        rep.violation(f"primitive chain {rec['ch']} on shape {shape} {dt}: value multiplier ok={okf} (spec {ef}), gradient multiplier ok={okb} (spec {eb})",
                      {"chain": rec, "shape": list(shape), "dtype": str(dt)}, key=f"chain:{'fwd' if not okf else 'bwd'}:{'zero' if 0 in (ef, eb) else 'neg' if min(ef, eb) < 0 else 'pos'}")


def history_probe(rep: Report, rng: random.Random, n: int) -> None:
    """Process history: "multiply the gradient by whatever factor is given" must not depend on which dtype (or which
    other factor) went through the primitives first.  Fresh non-dyadic factors, each used on a random ORDER of dtypes."""
    from unit_scaling.scale import scale_bwd, scale_fwd

    tols = {torch.bfloat16: 2.0 ** -7, torch.float16: 2.0 ** -10, torch.float32: 2.0 ** -22, torch.float64: 2.0 ** -50}
    for i in range(n):
        fb = rng.choice([rng.uniform(0.05, 3.0), 1.0 / rng.randint(3, 999), rng.randint(3, 999) / 7.0])
        ff = rng.uniform(0.05, 3.0)
        order = list(tols)
        rng.shuffle(order)
        if i % 2 == 0:
            order.sort(key=lambda d: tols[d], reverse=True)     # lowest precision first
        for dt in order:
            shape = rng.choice([(3,), (2, 3), ()])
            x = torch.randn(shape, dtype=torch.float64).to(dt).requires_grad_(True)
            up = torch.randn(shape, dtype=torch.float64).to(dt)
            y = scale_fwd(scale_bwd(x, fb), ff)
            (g,) = torch.autograd.grad(y, x, up)
            sub = torch.finfo(dt).smallest_normal * torch.finfo(dt).eps     # spacing of the subnormals: products may land there (float16)
            okf = y.dtype == dt and torch.allclose(y.detach().double(), x.detach().double() * ff, rtol=tols[dt], atol=sub)
            okb = g.dtype == dt and torch.allclose(g.double(), up.double() * fb, rtol=tols[dt], atol=sub)
            rep.case(("history", i, str(dt)))
            if not (okf and okb):
                rep.violation(f"scale_bwd(x, {fb!r}) / scale_fwd(x, {ff!r}) in {dt} after the dtype history {[str(d) for d in order[: order.index(dt)]]}: value multiplier ok={okf}, gradient multiplier ok={okb}",
                              {"history": [str(d) for d in order], "dtype": str(dt), "bwd_factor": fb, "fwd_factor": ff}, key=f"history:{'fwd' if not okf else 'bwd'}")
                return


def run(rep: Report, tier: str) -> None:
    rng = random.Random(common.seed() * 31 + 6)
    torch.manual_seed(common.seed())
    torch.set_num_threads(4)
    res = common.run_tlc("Tape_MC", "Tape_MC_prim.cfg", coverage=True, timeout=600, tag="tapeprim")
    common.tlc_must_pass(res, "Tape_MC prim")
    rep.add_tlc(res)
    r = common.run_tlc("Tape_MC", "Tape_MC_prim_leg.cfg", timeout=300, tag="tapeprimleg")
    common.tlc_must_fail(r, "Tape Legacy=fwd_touches_bwd", "ChainOK")
    rep.extra.setdefault("l2_refuted_deviations", []).append({"legacy": "fwd_touches_bwd", "violated": r.violated_invariant})
    r2 = common.run_tlc("ScaledOps_MC", "ScaledOps_MC.cfg", timeout=600, tag="somc")
    common.tlc_must_pass(r2, "ScaledOps_MC")
    rep.add_tlc(r2, with_cov=False)
    chains = res.printed("CHAIN")
    if len(chains) < 1000:
        raise common.MachineryError(f"Tape_MC emitted only {len(chains)} chains")
    rep.extra["chains_emitted_by_tlc"] = len(chains)
    history_probe(rep, rng, 24 if tier == "quick" else 400)
    for rec in chains:
        if tier == "quick" and len(rec["ch"]) == 3 and rng.random() > 0.2:
            continue
        replay_chain(rep, rec, rng)
    from .c01 import extra_cfgs

    cfgs = ops.configs_deep(rng, tier) + [c for c in extra_cfgs(rng) if not c.get("frozen")]     # + the magnitude / low-precision corners of C01
    classes = fnlog.Classes()
    events: List[List[Any]] = []
    cfg_of: Dict[int, Dict[str, Any]] = {}
    cids = fnlog.family_ids(cfgs)
    for cid, cfg in zip(cids, cfgs):
        cfg_of.setdefault(cid, cfg)
        ev, raw = fnlog.events_for_cfg(cid, cfg, False, True, classes)
        events += ev
        rep.case((cfg["op"], json.dumps(cfg, sort_keys=True, default=str)))
    step = 1 if tier == "quick" else 4      # thorough: every 4th configuration goes through the second history
    hist_ev = fnlog.other_history_events(cfgs[::step], cids[::step], False, True, classes)
    events += hist_ev
    events.sort(key=lambda e: e[2])     # stable: per configuration id, this process's events first, then the other history's
    rep.extra["events_from_the_reverse_order_history"] = len(hist_ev)
    validate(rep, events, cfg_of, "C02")
    rep.extra["events"] = len(events)
    rep.extra["gradient_slots_skipped_as_ill_conditioned"] = fnlog.SKIPPED["ill_conditioned_gradient_slots"]
    rep.rule = ("(1) every chain of <= 3 primitives over 10 signed rational factors emitted by TLC (quick: 20% of length 3); (2) the C01 configuration space x every differentiable "
                "input x 2 data draws x 2 upstream gradients + one repeated call; distinct_nontrivial = distinct chains of length >= 2 + distinct configurations")
    rep.sample(chains[len(chains) // 2])
    for e in events[:: max(1, len(events) // 3)][:3]:
        rep.sample({"event": e, "cfg": cfg_of.get(e[2])})
    rep.assumptions += ["reference gradients = torch.autograd of the reference op (sum-reduced for mean-reduced losses), same upstream gradient", "tolerances by dtype as C01"]


def replay(rep: Report, path: str) -> None:
    d = json.load(open(path))
    c = d["case"]
    rep.case("replay")
    rep.case(json.dumps(c, default=str)[:200])
    if "chain" in c:
        for _ in range(20):
            replay_chain(rep, c["chain"], random.Random(_))
        rep.traces = 1
        rep.sample(c["chain"])
        return
    if "history" in c:
        history_probe(rep, random.Random(d.get("seed", 0) * 31 + 6), 24)
        rep.traces = 1
        rep.sample(c)
        return
    classes = fnlog.Classes()
    ev, _ = fnlog.events_for_cfg(1, c["cfg"], False, True, classes)
    rep.sample(ev[:2])
    validate(rep, ev, {1: c["cfg"]}, "C02")
