"""./check <id> [--tier quick|thorough] [--replay file]"""
from __future__ import annotations

import argparse
import importlib
import os
import sys
import traceback


def main() -> int:
    ap = argparse.ArgumentParser()
    ap.add_argument("pid")
    ap.add_argument("--tier", default=os.environ.get("VERIF_TIER", "quick"), choices=["quick", "thorough"])
    ap.add_argument("--replay", default=None)
    a = ap.parse_args()
    pid = a.pid.upper()
    os.environ.setdefault("PYTHONHASHSEED", "0")
    try:
        from . import common

        mod = importlib.import_module(f"harness.{pid.lower()}")
        rep = common.Report(pid, a.tier)
        if a.replay:
            rep.is_replay = True
            mod.replay(rep, a.replay)
        else:
            mod.run(rep, a.tier)
        return rep.finish()
    except Exception as ex:  # machinery failure: never a verdict
        traceback.print_exc()
        print(f"MACHINERY-FAILURE property={pid}: {type(ex).__name__}: {str(ex)[:500]}")
        return 2


if __name__ == "__main__":
    sys.exit(main())
