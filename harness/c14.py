"""C14 -- stochastic rounding picks a neighbour with exactly proportional probability.

L2: Quantise_MC (stoch mode): every pattern x format x srbits x every draw.
L3 (B): torch.randint is substituted from the harness by an enumerator of all
2^srbits draws; for each input the raw outputs over all draws are reduced to
(rstar, first result, last result) after checking they form a two-valued step,
and Quantise_Trace validates the model at the step and the proportionality
invariant (CountOK) at host (8,23).
"""
from __future__ import annotations

import json
import random
from typing import Any, Dict, List, Tuple
from unittest import mock

import numpy as np
import torch

from . import common, quant
from .common import Report
from .c13 import l2


class Enumerator:
    """Stands in for torch.randint: returns every draw once along the last axis."""

    def __init__(self, s: int):
        self.s = s
        self.calls: List[Tuple[Any, ...]] = []

    def __call__(self, low, high, size, **kw):  # signature used by formats.py
        self.calls.append((low, high, tuple(size), kw.get("dtype")))
        n = size[-1]
        r = torch.arange(n, dtype=torch.int64) % max(1, (1 << self.s))
        return r.to(kw.get("dtype", torch.int64)).expand(*size).contiguous()


def half_patterns(E: int, M: int, dtype: torch.dtype, rng: random.Random, n: int) -> np.ndarray:
    """float32 patterns of values that ARE exactly representable in `dtype` (float16 / bfloat16) and lie in the lower part of the
    format's range (subnormals and first binades): there the format's grid can be coarser than the half dtype's own."""
    bias = 2 ** (E - 1) - 1
    mn = 2.0 ** (1 - bias)
    g = torch.Generator().manual_seed(rng.randrange(1 << 30))
    v = torch.cat([torch.rand(n, generator=g) * mn, torch.rand(n, generator=g) * mn * 8]).to(dtype)
    v = v[torch.isfinite(v.float()) & (v.float() > 0)]
    return np.unique(v.float().contiguous().view(torch.int32).numpy().astype(np.int64) & 0x7FFFFFFF)


_SHARED: Dict[str, Any] = {}


def events_for(E: int, M: int, s_arg: int, pats: np.ndarray, path: str = "quantise", dtype: torch.dtype = torch.float32) -> Tuple[List[List[int]], int]:
    """s_arg = 0 means "default" (all discarded bits).  path: the entry point -- quantise itself, or the straight-through
    wrappers quantise_fwd (forward value) / quantise_bwd (gradient), which format simulation uses."""
    from unit_scaling.formats import FPFormat

    if (E + M + s_arg) % 3 == 1:
        # FPFormat is a plain mutable dataclass: ONE long-lived stochastic format whose fields are re-assigned after it has been
        # used (an srbits sweep that reuses the object) -- anything memoised on the object after its first quantise would be stale
        f = _SHARED.get("f")
        if f is None:
            f = _SHARED["f"] = FPFormat(5, 2, rounding="stochastic", srbits=3)
            f.quantise(torch.tensor([1.0, 300.0, 1e9]))
        f.exponent_bits, f.mantissa_bits, f.srbits = E, M, (s_arg if s_arg else 23 - M)
    else:
        f = FPFormat(E, M, rounding="stochastic", srbits=s_arg)
    s = f.srbits
    nd = 1 << s
    x1 = quant.to_tensor(pats)
    x = x1[:, None].expand(len(pats), nd).contiguous().to(dtype)       # (exact: half-precision runs use patterns representable in dtype)
    en = Enumerator(s)
    with mock.patch("torch.randint", en):
        if path == "quantise":
            q = f.quantise(x)
        elif path == "fwd":
            q = f.quantise_fwd(x.clone().requires_grad_()).detach()
        else:
            t = torch.zeros_like(x, requires_grad=True)
            f.quantise_bwd(t).backward(x)
            q = t.grad
    ev: List[List[int]] = []
    api_ok = (
        len(en.calls) == 1
        and en.calls[0][0] == 0
        and en.calls[0][1] == nd
        and en.calls[0][2] == tuple(x.shape)
        and en.calls[0][3] == torch.int32
    )
    # kind 3: xs = one independent draw per element in [0, 2^srbits) ; x,a,b = shape, dtype, -
    ev.append([E, M, 5, s, int(api_ok), int(q.shape == x.shape), int(q.dtype == x.dtype), 1, 0, 0])
    xs, xm = quant.bits(x1)
    qs, qm = quant.bits(q.reshape(-1).float())
    qs = qs.reshape(len(pats), nd)
    qm = qm.reshape(len(pats), nd)
    first = qm[:, 0]
    last = qm[:, -1]
    diff = qm != first[:, None]
    rstar = np.where(diff.any(axis=1), diff.argmax(axis=1), nd)
    mono = (np.diff(qm, axis=1) >= 0).all(axis=1) if nd > 1 else np.ones(len(pats), bool)
    two = ((qm == first[:, None]) | (qm == last[:, None])).all(axis=1)
    sign_ok = (qs == xs[:, None]).all(axis=1)
    for i in range(len(pats)):
        if mono[i] and two[i] and sign_ok[i]:
            ev.append([E, M, 2, s, int(xs[i]), int(xm[i]), int(rstar[i]), int(first[i]), int(xs[i]), int(last[i])])
        else:
            # not a clean step: send every distinct (draw, result) to TLC individually
            seen = set()
            for r in range(nd):
                k = (int(qm[i, r]), int(qs[i, r]))
                if k in seen and mono[i]:
                    continue
                seen.add(k)
                ev.append([E, M, 1, s, int(xs[i]), int(xm[i]), r, int(qm[i, r]), int(qs[i, r]), 0])
            if two[i] and sign_ok[i]:
                lo = min(int(first[i]), int(last[i]))
                cnt = int((qm[i] != lo).sum())
                ev.append([E, M, 4, s, int(xs[i]), int(xm[i]), cnt, lo, int(xs[i]), max(int(first[i]), int(last[i]))])
    return ev, len(pats) * nd


def independence_probe(rep: Report) -> List[List[int]]:
    """'different elements use independent draws': with the real RNG, two equal
    inputs in one tensor must be able to round differently (a shared draw would
    make all equal elements agree in every call)."""
    from unit_scaling.formats import FPFormat

    torch.manual_seed(common.seed() + 1)
    ev = []
    for (E, M) in [(4, 3), (5, 2), (2, 1)]:
        f = FPFormat(E, M, rounding="stochastic")
        x = torch.full((4096,), 1.0 + 2.0 ** -(M + 1))  # exactly halfway
        q = f.quantise(x)
        ndist = len(torch.unique(q))
        ev.append([E, M, 5, 23 - M, int(ndist == 2), 1, 1, 1, 0, 0])
        # the same through BROADCAST views (stride 0: one stored element, many logical ones -- e.g. the gradient of y.sum()) and
        # through the straight-through wrappers: every logical element still draws for itself
        for make in (lambda: torch.tensor(1.0 + 2.0 ** -(M + 1)).expand(4096), lambda: torch.full((64, 1), 1.0 + 2.0 ** -(M + 1)).expand(64, 64)):
            xv = make()
            qv = f.quantise(xv)
            ev.append([E, M, 5, 23 - M, int(len(torch.unique(qv)) == 2), int(qv.shape == xv.shape), int(qv.dtype == xv.dtype), 1, 0, 0])
        t = torch.zeros(4096, requires_grad=True)
        f.quantise_bwd(t).backward(torch.tensor(1.0 + 2.0 ** -(M + 1)).expand(4096))
        ev.append([E, M, 5, 23 - M, int(len(torch.unique(t.grad)) == 2), 1, 1, 1, 0, 0])
    return ev


def run(rep: Report, tier: str) -> None:
    rng = random.Random(common.seed() * 104729 + 17)
    # all draws are enumerated in every state: host (3,10) would need ~4e9 algorithm evaluations, (3,8) is the widest that finishes
    l2(rep, tier, "stoch", hosts_thorough=["4_6", "4_8", "3_8"])
    quick = tier == "quick"
    all_events: List[List[int]] = []
    all_paths: List[str] = []
    evals = 0
    formats = [(E, M) for E in range(2, 8) for M in range(0, 11)]
    for (E, M) in formats:
        D = 23 - M
        if quick:
            s_list = sorted({1, 2, rng.randint(3, 7), rng.randint(8, 12)})
            n_vals, budget = 10, 1 << 18
        else:
            s_list = list(range(1, 13))
            n_vals, budget = 64, 1 << 22
        s_list = [s for s in s_list if s <= D]
        cases = [(s, s) for s in s_list]
        if D <= 20 and (not quick or D <= 16):
            cases.append((0, D))  # default: all discarded bits
        # one process, one (E, M): the srbits values follow each other (coarse to fine, default last) THROUGH THE SAME ENTRY POINT,
        # so that anything remembered per format-without-srbits shows up
        paths = [["quantise", "fwd", "bwd"][(E + M) % 3]] if quick else ["quantise", "fwd", "bwd"]
        for path in paths:
          for (s_arg, s) in cases:
            pats = quant.inputs_for_format(E, M, rng, n_vals, 1)   # one generic mantissa per exponent also in quick: fractions other than 0, 1/2, 1
            pats = pats[pats < quant.INF]  # finite range
            maxn = max(8, budget >> s)
            if len(pats) > maxn:
                sel = np.array(sorted(rng.sample(range(len(pats)), maxn)))
                pats = pats[sel]
            ev, n = events_for(E, M, s_arg, pats, path)
            all_events += ev
            all_paths += [path] * len(ev)
            evals += n
            rep.case(("fmt", E, M, s, path))
    # half-precision INPUTS (float16 / bfloat16 tensors) for formats with as many mantissa bits as the dtype: nothing to round in the
    # normal range, but in the format's subnormal range there is
    for (E, M, dt) in [(E_, M_, dt_) for E_ in range(2, 6) for (M_, dt_) in ((10, torch.float16), (7, torch.bfloat16))]:     # M = mantissa bits of the dtype: results stay representable in it
        hp = half_patterns(E, M, dt, rng, 6 if quick else 64)
        for s_ in ((1, 4) if quick else (1, 2, 4, 8)):
            if s_ <= 23 - M and len(hp):
                ev, n = events_for(E, M, s_, hp, "quantise", dt)
                all_events += ev
                all_paths += ["quantise"] * len(ev)
                evals += n
                rep.case(("fmt_half", E, M, s_, str(dt)))
    ip = independence_probe(rep)
    all_events += ip
    all_paths += ["quantise"] * len(ip)
    rep.evaluations = evals
    rep.rule = (
        "per (format, srbits): inputs as C13 restricted to finite values; every one of the 2^srbits draws is executed "
        "through the real code by substituting torch.randint; evaluations = inputs x draws executed; "
        "distinct_nontrivial = distinct events sent to TLC"
    )
    fails = []
    B = 300000
    for i in range(0, len(all_events), B):
        batch = all_events[i : i + B]
        r = common.validate_traces("Quantise_Trace", "Quantise_Trace.cfg", batch, timeout=1800, tag="qtr14")
        rep.add_trace_result(r)
        for (l, clause) in r["fails"]:
            fails.append((clause, batch[l - 1], all_paths[i + l - 1]))
    rep.nontrivial = {tuple(e) for e in all_events}  # type: ignore
    rep.extra["events_validated_by_tlc"] = len(all_events)
    for e in all_events[:: max(1, len(all_events) // 5)][:5]:
        rep.sample({"event[E,M,kind,s,xs,x,rstar,first,qs,last]": e})
    for clause, e, path in fails:
        rep.violation(
            f"stochastic quantise event rejected (entry point {path}): clause={clause} E={e[0]} M={e[1]} kind={e[2]} srbits={e[3]} x=0x{e[5]:08x} a={e[6]} b=0x{e[7]:08x} c=0x{e[9]:08x}",
            {"event": e, "clause": clause, "path": path},
            key=f"{clause}:E{e[0]}M{e[1]}:s{e[3]}",
        )
    rep.assumptions += [
        "torch.randint is the only random source of quantise (substituted by an enumerator of all draws)",
        "fractional position is measured on the float32 value after the power-of-two prescale; an extra 2^-(24-M) slack is granted where that prescale rounds (DESIGN.md C14)",
    ]


def replay(rep: Report, path: str) -> None:
    d = json.load(open(path))
    e = d["case"]["event"]
    E, M, s = e[0], e[1], e[3]
    if e[2] in (2, 4, 1):
        path = d["case"].get("path", "quantise")
        if path != "quantise":     # the srbits history of this format through the same entry point comes first
            for s0 in range(1, s):
                events_for(E, M, s0, np.array([e[5]], dtype=np.int64), path)
        ev, n = events_for(E, M, s if s != 23 - M else 0, np.array([e[5]], dtype=np.int64), path)
    else:
        ev = independence_probe(rep)
    r = common.validate_traces("Quantise_Trace", "Quantise_Trace.cfg", ev, tag="qrp14")
    rep.add_trace_result(r)
    rep.case(tuple(e))
    rep.case("replay")
    rep.sample(ev[-1])
    for (l, clause) in r["fails"]:
        rep.violation(f"replayed event rejected: {clause}", {"event": ev[l - 1], "clause": clause}, key=f"{clause}:E{E}M{M}:s{s}")
