"""Probe library for the functional namespace (C01, C02, C03, C05, C20).

For an op configuration `cfg` (a JSON-able dict) `build(cfg, draw)` returns
  u_call(inputs)  -> unit-scaled result
  r_call(inputs)  -> PyTorch reference result (documented `mult` applied to the reference;
                     for mean-reduced losses `r_call_sum` is the sum-reduced reference used for gradients)
  inputs          -> ordered dict name -> tensor, differentiable slots flagged
The harness only knows how to call the two functions and how to fit a scalar.
"""
from __future__ import annotations

import itertools
import json
import math
import random
from collections import OrderedDict
from typing import Any, Callable, Dict, List, Optional, Tuple

import torch
import torch.nn.functional as F

DT = {"f64": torch.float64, "f32": torch.float32, "bf16": torch.bfloat16, "f16": torch.float16}
EPS = {"f64": 2.0 ** -52, "f32": 2.0 ** -23, "bf16": 2.0 ** -8, "f16": 2.0 ** -10}

BINARY = [None, "gmean", "hmean", "amean", "to_output_scale", "to_grad_input_scale"]
TERNARY = [None, "gmean", "hmean", "amean", "to_output_scale", "to_left_grad_scale", "to_right_grad_scale"]
EXACT1 = {"cross_entropy", "mse_loss", "layer_norm", "rms_norm", "embedding"}
ALL_OPS = ["gelu", "silu", "silu_glu", "softmax", "dropout", "matmul", "linear", "linear_readout", "conv1d",
           "layer_norm", "rms_norm", "add", "embedding", "scaled_dot_product_attention", "cross_entropy", "mse_loss"]
UNSUPPORTED = {
    "silu": [("inplace", True)],
    "dropout": [("inplace", True)],
    "add": [("alpha", 2), ("alpha", 0)],
    "embedding": [("scale_grad_by_freq", True), ("sparse", True)],
    # falsy non-default values are requests too: size_average=False / reduce=False (default None) ask for a sum / no reduction
    "cross_entropy": [("weight", "tensor"), ("size_average", True), ("reduce", True), ("label_smoothing", 0.1), ("size_average", False), ("reduce", False)],
    "mse_loss": [("size_average", True), ("reduce", True), ("size_average", False), ("reduce", False)],
}


def _gen(cfg: Dict[str, Any], draw: int) -> torch.Generator:
    return torch.Generator().manual_seed((hash_cfg(cfg) * 1000003 + draw * 7919 + 17) % (1 << 31))


def hash_cfg(cfg: Dict[str, Any]) -> int:
    import hashlib, json

    return int(hashlib.sha1(json.dumps(cfg, sort_keys=True, default=str).encode()).hexdigest()[:8], 16)


def randn(g: torch.Generator, shape, dt: str, scale: float = 1.0) -> torch.Tensor:
    return (torch.randn(tuple(shape), generator=g, dtype=torch.float64) * scale).to(DT[dt])


class Built:
    def __init__(self, u: Callable, r: Callable, inputs: "OrderedDict[str, torch.Tensor]", diff: List[str], r_sum: Optional[Callable] = None, seed_rng: bool = False):
        self.u, self.r, self.inputs, self.diff, self.r_sum = u, r, inputs, diff, r_sum or r
        self.seed_rng = seed_rng


class _KwProxy:
    """unit_scaling.functional with every call turned into an ALL-KEYWORD call (input=..., weight=..., ...): the same
    function must result however the arguments are passed."""

    def __init__(self, mod: Any):
        self._mod = mod

    def __getattr__(self, name: str) -> Any:
        import inspect

        f = getattr(self._mod, name)
        if not callable(f):
            return f
        sig = inspect.signature(f)

        def call(*args: Any, **kw: Any) -> Any:
            ba = sig.bind(*args, **kw)
            named = {}
            for k, v in ba.arguments.items():
                if sig.parameters[k].kind is inspect.Parameter.VAR_KEYWORD:
                    named.update(v)
                elif sig.parameters[k].kind is inspect.Parameter.VAR_POSITIONAL:
                    return f(*args, **kw)     # cannot be expressed by keywords
                else:
                    named[k] = v
            return f(**named)

        return call


def _strided(v: torch.Tensor) -> torch.Tensor:
    """A NON-CONTIGUOUS view with the same values (stride 2 along the last axis)."""
    if not v.is_floating_point() or v.ndim == 0 or v.numel() == 0:
        return v
    return v.repeat_interleave(2, dim=-1)[..., ::2]


def build(cfg: Dict[str, Any], draw: int) -> Built:
    import unit_scaling.functional as U

    if cfg.get("call_style") == "kw":
        U = _KwProxy(U)

    op = cfg["op"]
    g = _gen(cfg, draw)
    dt = cfg.get("dtype", "f64")
    batch = list(cfg.get("batch", []))
    extra = dict(cfg.get("extra", {}))  # unsupported / extra kwargs passed verbatim to the unit-scaled op
    if "weight" in extra and extra["weight"] == "tensor":
        extra["weight"] = torch.ones(cfg["vocab"], dtype=DT[dt])
    con = cfg.get("constraint", "__default__")
    ckw = {} if con == "__default__" else {"constraint": con}
    inp: "OrderedDict[str, torch.Tensor]" = OrderedDict()

    if op in ("gelu", "silu"):
        inp["input"] = randn(g, batch + [cfg["n"]], dt, cfg.get("scale", 1.0))
        mult = cfg["mult"]
        if op == "gelu":
            ap = cfg.get("approximate", "none")
            return Built(lambda i: U.gelu(i["input"], mult=mult, approximate=ap, **ckw, **extra),
                         lambda i: F.gelu(i["input"] * mult, approximate=ap) / mult, inp, ["input"])
        return Built(lambda i: U.silu(i["input"], mult=mult, **ckw, **extra),
                     lambda i: F.silu(i["input"] * mult) / mult, inp, ["input"])
    if op == "silu_glu":
        inp["input"] = randn(g, batch + [cfg["n"]], dt)
        inp["gate"] = randn(g, batch + [cfg["n"]], dt)
        mult = cfg["mult"]
        return Built(lambda i: U.silu_glu(i["input"], i["gate"], mult=mult),
                     lambda i: i["input"] * F.silu(i["gate"] * mult) / mult, inp, ["input", "gate"])
    if op == "softmax":
        inp["input"] = randn(g, batch + [cfg["n"]], dt, cfg.get("scale", 1.0))
        mult, dim = cfg["mult"], cfg["dim"]
        return Built(lambda i: U.softmax(i["input"], dim=dim, mult=mult, **ckw),
                     lambda i: F.softmax(i["input"] * mult, dim=dim), inp, ["input"])
    if op == "dropout":
        inp["input"] = randn(g, batch + [cfg["n"]], dt)
        p, tr = cfg["p"], cfg["training"]
        if cfg.get("via_module"):     # the module, with p changed AFTER construction (a dropout schedule): same function as U.dropout(x, p)
            import unit_scaling as uu

            m = uu.Dropout(0.5 if p != 0.5 else 0.25)
            m.p = p
            m.train(tr)
            return Built(lambda i: m(i["input"]), lambda i: F.dropout(i["input"], p, tr), inp, ["input"], seed_rng=True)
        return Built(lambda i: U.dropout(i["input"], p, tr, **extra),
                     lambda i: F.dropout(i["input"], p, tr), inp, ["input"], seed_rng=True)
    if op == "matmul":
        a, b, c = cfg["a"], cfg["b"], cfg["c"]
        vec = cfg.get("vec")          # torch.matmul also takes 1-D operands: "left" = [b] @ [b, c], "right" = [a, b] @ [b], "both" = [b] @ [b]
        # batch_left / batch_right: the operands' own batch dims where they differ (torch.matmul broadcasts them)
        inp["left"] = randn(g, [b] if vec in ("left", "both") else list(cfg.get("batch_left", batch)) + [a, b], dt)
        inp["right"] = randn(g, [b] if vec in ("right", "both") else list(cfg.get("batch_right", batch)) + [b, c], dt)
        return Built(lambda i: U.matmul(i["left"], i["right"], **ckw), lambda i: torch.matmul(i["left"], i["right"]), inp, ["left", "right"])
    if op in ("linear", "linear_readout"):
        fi, fo = cfg["fan_in"], cfg["fan_out"]
        inp["input"] = randn(g, batch + [fi], dt)
        inp["weight"] = randn(g, [fo, fi], dt)
        diff = ["input", "weight"]
        if cfg.get("bias", False):
            inp["bias"] = randn(g, [fo], dt)
            diff.append("bias")
        fn = U.linear if op == "linear" else U.linear_readout
        bias_kw = cfg.get("bias_kw", False)
        if bias_kw:
            return Built(lambda i: fn(i["input"], i["weight"], bias=i.get("bias"), **ckw), lambda i: F.linear(i["input"], i["weight"], i.get("bias")), inp, diff)
        return Built(lambda i: fn(i["input"], i["weight"], i.get("bias"), **ckw), lambda i: F.linear(i["input"], i["weight"], i.get("bias")), inp, diff)
    if op == "conv1d":
        ci, co, k, L = cfg["cin"], cfg["cout"], cfg["k"], cfg["len"]
        st, pad, dil, gr = cfg["stride"], cfg["padding"], cfg["dilation"], cfg["groups"]
        inp["input"] = randn(g, batch + [ci, L], dt)
        inp["weight"] = randn(g, [co, ci // gr, k], dt)
        diff = ["input", "weight"]
        if cfg.get("bias", False):
            inp["bias"] = randn(g, [co], dt)
            diff.append("bias")
        return Built(lambda i: U.conv1d(i["input"], i["weight"], i.get("bias"), st, pad, dil, gr, **ckw),
                     lambda i: F.conv1d(i["input"], i["weight"], i.get("bias"), st, pad, dil, gr), inp, diff)
    if op in ("layer_norm", "rms_norm"):
        ns = list(cfg["norm_shape"])
        inp["input"] = randn(g, batch + ns, dt, cfg.get("scale", 1.0))
        diff = ["input"]
        if cfg.get("affine", False) == "bias_only" and op == "layer_norm":   # weight=None with a bias tensor
            inp["bias"] = randn(g, ns, dt)
            diff.append("bias")
        elif cfg.get("affine", False):
            inp["weight"] = randn(g, ns, dt) + 1.0
            diff.append("weight")
            if op == "layer_norm" and cfg.get("bias", True):
                inp["bias"] = randn(g, ns, dt)
                diff.append("bias")
        eps = cfg.get("eps", 1e-5)
        if op == "layer_norm":
            return Built(lambda i: U.layer_norm(i["input"], ns, i.get("weight"), i.get("bias"), eps),
                         lambda i: F.layer_norm(i["input"], ns, i.get("weight"), i.get("bias"), eps), inp, diff)
        return Built(lambda i: U.rms_norm(i["input"], tuple(ns), i.get("weight"), eps),
                     lambda i: F.rms_norm(i["input"], ns, i.get("weight"), eps), inp, diff)
    if op == "add":
        if cfg.get("scalar") is not None:
            inp["input"] = randn(g, cfg["sa"], dt)
            sc, side = cfg["scalar"], cfg.get("scalar_side", "right")
            if side == "right":
                return Built(lambda i: U.add(i["input"], sc, **ckw), lambda i: torch.add(i["input"], sc), inp, ["input"])
            return Built(lambda i: U.add(sc, i["input"], **ckw), lambda i: torch.add(sc, i["input"]), inp, ["input"])
        inp["input"] = randn(g, cfg["sa"], dt)
        inp["other"] = randn(g, cfg["sb"], dt)
        return Built(lambda i: U.add(i["input"], i["other"], **ckw, **extra), lambda i: torch.add(i["input"], i["other"]), inp, ["input", "other"])
    if op == "embedding":
        V, D = cfg["vocab"], cfg["dim"]
        ids = torch.randint(0, V, tuple(batch) if batch else (), generator=g)
        pidx = cfg.get("padding_idx")
        if pidx is not None and cfg.get("avoid_padding", False):
            ids = torch.where(ids == (pidx % V), (ids + 1) % V, ids)
        inp["input"] = ids
        inp["weight"] = randn(g, [V, D], dt, cfg.get("wscale", 1.0))
        mn = cfg.get("max_norm")
        # torch renormalises its weight argument in place when max_norm is set: give the reference its own copy
        return Built(lambda i: U.embedding(i["input"], i["weight"], pidx, mn, **extra),
                     lambda i: F.embedding(i["input"], i["weight"].clone() if mn else i["weight"], pidx, mn), inp, ["weight"])
    if op == "scaled_dot_product_attention":
        s, d, h = cfg["seq"], cfg["d_head"], cfg.get("heads")
        skv, dv = cfg.get("seq_kv", s), cfg.get("d_v", d)      # cross-attention: L != S ; value head size != query/key head size
        lead = batch + ([h] if h else [])
        inp["query"] = randn(g, lead + [s, d], dt)
        inp["key"] = randn(g, lead + [skv, d], dt)
        inp["value"] = randn(g, lead + [skv, dv], dt)
        mult, causal = cfg["mult"], cfg.get("is_causal", False)
        mk = cfg.get("mask")
        mask = None
        if mk == "bool":
            mask = torch.rand(s, skv, generator=g) > 0.3
            mask = mask | (torch.arange(s)[:, None] == torch.arange(skv)[None, :]) | (torch.arange(skv)[None, :] == 0)
        elif mk == "float":
            mask = randn(g, [s, skv], dt)
        dp = cfg.get("dropout_p")
        kw = {} if dp is None else {"dropout_p": dp}
        # the documented temperature: logits = q.k * mult / (head size of QUERY and KEY), as PyTorch's own default uses q.size(-1)
        return Built(lambda i: U.scaled_dot_product_attention(i["query"], i["key"], i["value"], attn_mask=mask, is_causal=causal, mult=mult, **kw),
                     lambda i: F.scaled_dot_product_attention(i["query"], i["key"], i["value"], attn_mask=mask, is_causal=causal, scale=mult / d, **kw),
                     inp, ["query", "key", "value"], seed_rng=bool(dp))
    if op == "cross_entropy":
        V = cfg["vocab"]
        B = cfg.get("batch_size")  # None -> 1-D logits
        shape = cfg.get("logit_shape") or ([B, V] if B is not None else [V])
        inp["input"] = randn(g, shape, dt, cfg.get("scale", 1.0))
        ii = cfg.get("ignore_index", -100)
        if cfg.get("prob_target"):
            tgt = torch.softmax(torch.randn(tuple(shape), generator=g, dtype=torch.float64), -1).to(DT[dt])
        elif B is None:
            tgt = torch.randint(0, V, (), generator=g)
        else:
            tgt = torch.randint(0, V, (shape[0],) if len(shape) == 2 else tuple(shape[:1] + shape[2:]), generator=g)
            nig = cfg.get("n_ignored", 0)
            if nig:
                idx = torch.randperm(shape[0], generator=g)[:nig]
                tgt[idx] = ii
        inp["target"] = tgt
        red, mult = cfg.get("reduction", "mean"), cfg.get("mult", 1.0)
        kw = {} if "ignore_index" not in cfg else {"ignore_index": ii}
        return Built(lambda i: U.cross_entropy(i["input"], i["target"], reduction=red, mult=mult, **kw, **extra),
                     lambda i: F.cross_entropy(i["input"] * mult, i["target"], ignore_index=ii, reduction=red), inp, ["input"],
                     r_sum=lambda i: F.cross_entropy(i["input"] * mult, i["target"], ignore_index=ii, reduction="sum"))
    if op == "mse_loss":
        shape = cfg["shape"]
        inp["input"] = randn(g, shape, dt)
        inp["target"] = randn(g, cfg.get("target_shape", shape), dt)
        red = cfg.get("reduction", "mean")
        return Built(lambda i: U.mse_loss(i["input"], i["target"], reduction=red, **extra),
                     lambda i: F.mse_loss(i["input"], i["target"], reduction=red), inp, ["input", "target"],
                     r_sum=lambda i: F.mse_loss(i["input"], i["target"], reduction="sum"))
    raise ValueError(op)


def fit(a: torch.Tensor, b: torch.Tensor) -> Tuple[float, float]:
    """Least-squares scalar s with a ~ s*b, and relative residual."""
    a64, b64 = a.detach().to(torch.float64).reshape(-1), b.detach().to(torch.float64).reshape(-1)
    if bool((torch.isnan(a64) != torch.isnan(b64)).any()) or bool((torch.isinf(a64) != torch.isinf(b64)).any()):
        return float("nan"), 1.0
    fin = torch.isfinite(a64) & torch.isfinite(b64)   # positions where both are nan / inf agree by the test above
    a64, b64 = a64[fin], b64[fin]
    bb = float(torch.dot(b64, b64))
    aa = float(torch.dot(a64, a64))
    if bb == 0.0:
        return (1.0, 0.0) if aa == 0.0 else (float("inf"), 1.0)
    s = float(torch.dot(a64, b64)) / bb
    res = float(torch.linalg.vector_norm(a64 - s * b64)) / max(math.sqrt(aa), 1e-300)
    return s, res


def probe(cfg: Dict[str, Any], draw: int, up_draw: int = 0, backward: bool = True, runner: Optional[Callable] = None) -> Dict[str, Any]:
    """One observation of one configuration. `runner(fn, inputs)` lets C20 swap the
    execution mode (eager / torch.compile / fx) of the unit-scaled call."""
    b = build(cfg, draw)
    if cfg.get("grad_only") is not None:     # only these slots require grad (first layer: data input does not; fine-tuning: frozen weights)
        b.diff = [k for k in b.diff if k in cfg["grad_only"]]
    rg = not cfg.get("frozen", False)
    lay = _strided if cfg.get("layout") == "strided" else (lambda t: t)
    ins_u = OrderedDict((k, (lay(v.clone()).requires_grad_(True) if (rg and k in b.diff and v.is_floating_point()) else lay(v.clone()))) for k, v in b.inputs.items())
    ins_r = OrderedDict((k, (lay(v.clone()).requires_grad_(True) if (rg and k in b.diff and v.is_floating_point()) else lay(v.clone()))) for k, v in b.inputs.items())
    before = {k: (v.detach().clone(), v._version) for k, v in ins_u.items()}
    obs: Dict[str, Any] = {"err": None}
    seed = 12345 + draw
    try:
        if b.seed_rng:
            torch.manual_seed(seed)
        out_u = runner(b.u, ins_u) if runner else b.u(ins_u)
    except Exception as ex:
        obs["err"] = f"{type(ex).__name__}: {str(ex)[:120]}"
        return obs
    if b.seed_rng:
        torch.manual_seed(seed)
    out_r = b.r(ins_r)
    obs["shape_ok"] = tuple(out_u.shape) == tuple(out_r.shape)
    obs["dtype_ok"] = out_u.dtype == out_r.dtype
    obs["unmodified"] = all(torch.equal(ins_u[k].detach(), v0) and ins_u[k]._version == ver for k, (v0, ver) in before.items())
    if not obs["shape_ok"]:
        return obs
    obs["fwd"], obs["fwd_res"] = fit(out_u, out_r)
    _r = out_r.detach().to(torch.float64)
    _r = _r[torch.isfinite(_r)]
    obs["fwd_zero_ref"] = bool(float(_r.abs().max()) == 0.0) if _r.numel() else True
    if backward and out_u.requires_grad:
        gup = torch.Generator().manual_seed(99991 * (up_draw + 1) + hash_cfg(cfg) % 1000)
        up = torch.randn(tuple(out_u.shape), generator=gup, dtype=torch.float64).to(out_u.dtype)
        if b.seed_rng:
            torch.manual_seed(seed)
            out_rs = b.r_sum(ins_r)
        else:
            out_rs = b.r_sum(ins_r) if b.r_sum is not b.r else out_r
        gu = torch.autograd.grad(out_u, [ins_u[k] for k in b.diff], up, allow_unused=True)
        gr = torch.autograd.grad(out_rs, [ins_r[k] for k in b.diff], up, allow_unused=True)
        obs["bwd"] = {}
        for k, a, c in zip(b.diff, gu, gr):
            if a is None or c is None:
                obs["bwd"][k] = {"f": None, "res": None, "none": [a is None, c is None]}
                continue
            f, r = fit(a, c)
            obs["bwd"][k] = {"f": f, "res": r, "shape_ok": tuple(a.shape) == tuple(c.shape), "dtype_ok": a.dtype == c.dtype, "noise": None,
                             "zero_ref": bool(float(torch.nan_to_num(c.detach().to(torch.float64), nan=0.0, posinf=0.0, neginf=0.0).abs().max()) == 0.0) if c.numel() else True}
        _calibrate(cfg, b, ins_r, up, gr, obs, gu, runner)
    return obs


def _calibrate(cfg: Dict[str, Any], b: "Built", ins_r, up, gr, obs: Dict[str, Any], gu=None, runner=None) -> None:
    """Conditioning of every gradient slot ON THIS DATA, measured on PyTorch alone: the same reference is run in a second
    precision (float64 for low-precision configurations, float32 for float64 ones) and the two reference gradients are
    compared with the same fit.  noise = how far PyTorch's own gradient moves when only the arithmetic precision changes,
    rescaled to the configuration's dtype.  A slot whose noise is a sizeable fraction of the tolerance (cancellation,
    saturated softmax in float16, a one-element gradient that is a difference of nearly equal terms) carries no
    information about the factor and is skipped by the callers."""
    if b.seed_rng:
        return
    dt = cfg.get("dtype", "f64")
    other = torch.float32 if dt == "f64" else torch.float64
    try:
        ins_w = OrderedDict((k, (v.detach().to(other).requires_grad_(v.requires_grad) if v.is_floating_point() else v.detach().clone())) for k, v in ins_r.items())
        out_w = (b.r_sum if b.r_sum is not b.r else b.r)(ins_w)
        gw = torch.autograd.grad(out_w, [ins_w[k] for k in b.diff], up.to(out_w.dtype), allow_unused=True)
    except Exception:
        return
    rescale = (EPS["f64"] / EPS["f32"]) if (dt == "f64" and cfg["op"] != "rms_norm") else 1.0   # rms_norm: float32 statistic by design
    for k, c, w in zip(b.diff, gr, gw):
        if c is None or w is None or k not in obs["bwd"] or obs["bwd"][k].get("f") is None:
            continue
        s, res = fit(c, w)
        if s == s and res == res:
            obs["bwd"][k]["noise"] = (abs(s - 1.0) + res) * rescale
    # the unit-scaled op computes some intermediates differently from the reference (e.g. a float32 statistic), so its own
    # sensitivity to the arithmetic precision is measured the same way (eager only); a wrong but precision-independent
    # factor leaves this measure at zero, so it cannot hide one
    if gu is None or runner is not None or dt == "f64":
        return
    try:
        ins_wu = OrderedDict((k, (v.detach().to(other).requires_grad_(v.requires_grad) if v.is_floating_point() else v.detach().clone())) for k, v in ins_r.items())
        out_wu = b.u(ins_wu)
        gwu = torch.autograd.grad(out_wu, [ins_wu[k] for k in b.diff], up.to(out_wu.dtype), allow_unused=True)
    except Exception:
        return
    for k, c, w in zip(b.diff, gu, gwu):
        if c is None or w is None or k not in obs["bwd"] or obs["bwd"][k].get("f") is None:
            continue
        s, res = fit(c, w)
        if s == s and res == res:
            obs["bwd"][k]["noise"] = max(obs["bwd"][k].get("noise") or 0.0, abs(s - 1.0) + res)


# --------------------------------------------------------------------------
# configuration spaces
# --------------------------------------------------------------------------

def batches(rng: random.Random, k: int) -> List[List[int]]:
    allb = [[]] + [[a] for a in (1, 2, 3)] + [[a, b] for a in (1, 2, 3) for b in (1, 2, 3)] + [[a, b, c] for a in (1, 2) for b in (1, 3) for c in (2, 3)]
    return rng.sample(allb, min(k, len(allb)))


def configs(rng: random.Random, size: str) -> List[Dict[str, Any]]:
    """size: 'quick' | 'thorough'.  Every op, every constraint name, every unsupported argument at least once."""
    q = size == "quick"
    nb = 3 if q else 8
    C: List[Dict[str, Any]] = []
    mults = [0.25, 1.0, 3.0]
    for op in ("gelu", "silu"):
        for con in BINARY + ["__default__"]:
            for mult in (mults if not q else [rng.choice(mults)]):
                for bt in batches(rng, nb):
                    c = {"op": op, "mult": mult, "constraint": con, "batch": bt, "n": rng.choice([1, 3, 7])}
                    if op == "gelu":
                        c["approximate"] = rng.choice(["none", "tanh"])
                    C.append(c)
    for mult in mults:
        for bt in batches(rng, nb):
            C.append({"op": "silu_glu", "mult": mult, "batch": bt, "n": rng.choice([1, 4])})
    for con in BINARY + ["__default__"]:
        for bt in batches(rng, nb + 1):
            n = rng.choice([2, 5, 9])
            shape = bt + [n]
            for dim in ([-1, 0, 1, -2] if not q else [rng.choice([-1, 0, 1, -2])]):
                if -len(shape) <= dim < len(shape):
                    C.append({"op": "softmax", "mult": rng.choice(mults), "constraint": con, "batch": bt, "n": n, "dim": dim})
    for p in (0.0, 0.25):
        for tr in (True, False):
            for bt in batches(rng, nb):
                C.append({"op": "dropout", "p": p, "training": tr, "batch": bt, "n": 6})
    for con in TERNARY + ["__default__"]:
        for bt in batches(rng, nb):
            C.append({"op": "matmul", "constraint": con, "batch": bt, "a": rng.choice([1, 2, 4]), "b": rng.choice([1, 3, 5]), "c": rng.choice([1, 2, 6])})
        for vec in ("left", "right", "both"):
            C.append({"op": "matmul", "constraint": con, "batch": [], "a": 1 if vec in ("left", "both") else rng.choice([2, 4]), "b": rng.choice([3, 5]),
                      "c": 1 if vec in ("right", "both") else rng.choice([2, 6]), "vec": vec})
    for op in ("linear", "linear_readout"):
        for con in BINARY + ["__default__"]:
            for bt in batches(rng, nb):
                C.append({"op": op, "constraint": con, "batch": bt, "fan_in": rng.choice([1, 3, 5, 8]), "fan_out": rng.choice([1, 2, 7]),
                          "bias": rng.random() < 0.5, "bias_kw": rng.random() < 0.3})
    for con in BINARY + ["__default__"]:
        for bt in ([[], [1], [2], [3]] if not q else [[], [2], [3]]):
            for _ in range(2 if q else 6):
                gr = rng.choice([1, 1, 2])
                k, dil, st = rng.choice([1, 2, 3, 4]), rng.choice([1, 2]), rng.choice([1, 2, 3])
                pad = rng.choice([0, 0, 1, 2])
                L = dil * (k - 1) + 1 + rng.choice([0, 1, 3, 6])
                C.append({"op": "conv1d", "constraint": con, "batch": bt, "cin": gr * rng.choice([1, 2, 3]), "cout": gr * rng.choice([1, 2]), "k": k, "len": L,
                          "stride": st, "padding": pad, "dilation": dil, "groups": gr, "bias": rng.random() < 0.5})
    for op in ("layer_norm", "rms_norm"):
        for bt in batches(rng, nb + 2):
            for ns in ([[4]], [[3, 2]]) if q else ([[4]], [[3, 2]], [[1]], [[2, 2, 2]]):
                for aff in ((False, True, "bias_only") if op == "layer_norm" else (False, True)):
                    C.append({"op": op, "batch": bt, "norm_shape": ns[0], "affine": aff, "bias": rng.random() < 0.7, "eps": rng.choice([1e-5, 1e-3, 0.5])})
    shapes = [[3], [1], [2, 3], [1, 3], [2, 1], [2, 1, 3], [1, 1, 1], [4, 2, 3], [1, 2, 1], []]
    for con in TERNARY + ["__default__"]:
        pairs = [(a, b) for a in shapes for b in shapes if _broadcastable(a, b)]
        for (a, b) in rng.sample(pairs, 6 if q else 30):
            C.append({"op": "add", "constraint": con, "sa": a, "sb": b})
        C.append({"op": "add", "constraint": con, "sa": [2, 3], "scalar": rng.choice([2, 0.5, -1.5]), "scalar_side": rng.choice(["left", "right"])})
        # an operand with exactly ONE element that is not 0-dimensional (a bias of shape (1,) / (1, 1)) against a larger tensor: "is a
        # scalar" can be decided by numel or by rank, and only numel is right
        C.append({"op": "add", "constraint": con, "sa": [2, 3], "sb": [1]})
        C.append({"op": "add", "constraint": con, "sa": [1, 1], "sb": [4, 2, 3]})
    for bt in batches(rng, nb + 2):
        for pidx in (None, 0, -1):
            for mn in (None, 1.0):
                C.append({"op": "embedding", "batch": bt, "vocab": rng.choice([3, 7]), "dim": rng.choice([1, 4]), "padding_idx": pidx, "max_norm": mn})
    for causal in (False, True):
        for mk in (None, "bool", "float"):
            if causal and mk:
                continue
            for bt in ([[], [2], [1, 2]] if q else [[], [1], [2], [1, 2], [2, 3]]):
                for heads in (None, 2):
                    C.append({"op": "scaled_dot_product_attention", "batch": bt, "heads": heads, "seq": rng.choice([2, 3, 5]), "d_head": rng.choice([1, 2, 4]),
                              "mult": rng.choice(mults), "is_causal": causal, "mask": mk, "dropout_p": rng.choice([None, 0.0])})
                    if not causal:     # cross-attention shapes (L != S), value head size != query/key head size, dropout
                        C.append({"op": "scaled_dot_product_attention", "batch": bt, "heads": heads, "seq": rng.choice([2, 3]), "seq_kv": rng.choice([4, 7]), "d_head": rng.choice([2, 4]),
                                  "d_v": rng.choice([1, 3, 8]), "mult": rng.choice(mults), "is_causal": False, "mask": mk, "dropout_p": rng.choice([None, 0.0, 0.25])})
    for red in ("mean", "sum"):
        for B in (None, 1, 2, 5):
            for nig in (0, 1, 2):
                if B is None and nig:
                    continue
                if B is not None and nig >= B:
                    continue
                for ii in (-100, 1):
                    C.append({"op": "cross_entropy", "vocab": rng.choice([2, 3, 7]), "batch_size": B, "reduction": red, "mult": rng.choice(mults),
                              "n_ignored": nig, "ignore_index": ii, "scale": rng.choice([1.0, 4.0])})
        C.append({"op": "cross_entropy", "vocab": 4, "batch_size": 3, "reduction": red, "mult": 1.0, "prob_target": True})
    for red in ("mean", "sum"):
        for sh in ([3], [2, 3], [1], [2, 1, 4], []):
            C.append({"op": "mse_loss", "shape": sh, "reduction": red})
    # requires_grad is not all-or-nothing: each differentiable slot alone, and all but one
    part = []
    for c in rng.sample(C, len(C) // 6):
        try:
            slots = list(build(c, 0).diff)
        except Exception:
            continue
        if len(slots) >= 2:
            k = rng.choice(slots)
            part.append(dict(c, grad_only=[k]))
            part.append(dict(c, grad_only=[x for x in slots if x != k]))
    C += part
    # the same call with non-contiguous inputs / with every argument passed by keyword
    var = []
    for c in rng.sample(C, len(C) // 8):
        var.append(dict(c, layout="strided"))
    for c in rng.sample(C, len(C) // 8):
        var.append(dict(c, call_style="kw"))
    C += var
    # siblings: the SAME hyper-parameters with one size changed -- a value memoised per (hyper-parameters) instead of per
    # (hyper-parameters, shape) then shows up as a factor that depends on the call history (fnlog.other_history_events)
    SIZE = {"softmax": ("n", lambda v: 2 * v + 1), "scaled_dot_product_attention": ("seq", lambda v: v + 3), "cross_entropy": ("vocab", lambda v: v + 4),
            "linear": ("fan_in", lambda v: v + 3), "linear_readout": ("fan_in", lambda v: v + 3), "matmul": ("b", lambda v: v + 2), "conv1d": ("len", lambda v: v + 2),
            "embedding": ("dim", lambda v: v + 2), "gelu": ("n", lambda v: v + 2), "silu": ("n", lambda v: v + 2), "silu_glu": ("n", lambda v: v + 2),
            "layer_norm": ("batch", lambda v: v + [2]), "rms_norm": ("batch", lambda v: v + [2]), "dropout": ("n", lambda v: v + 3)}
    ALWAYS = {"softmax", "scaled_dot_product_attention", "cross_entropy"}     # scales fitted as functions of a size
    sib = []
    for c in C:
        if c["op"] in SIZE and (c["op"] in ALWAYS or rng.random() < 0.25):
            k, f = SIZE[c["op"]]
            if k in c and c[k] is not None:
                sib.append(dict(c, **{k: f(c[k])}))
    C += sib
    # dtypes: a slice of everything in lower precision
    low = []
    for c in rng.sample(C, len(C) // (6 if q else 3)):
        for dt in ("f32", "bf16", "f16"):
            if rng.random() < 0.5 and not torch_crash_region(c, dt):
                low.append(dict(c, dtype=dt))
    C += low
    return C


def configs_deep(rng: random.Random, tier: str) -> List[Dict[str, Any]]:
    """quick: one round of configs(); thorough: VERIF_ROUNDS (default 10) rounds from the same stream, de-duplicated."""
    import os

    if tier == "quick":
        return configs(rng, tier)
    seen, out = set(), []
    for _ in range(int(os.environ.get("VERIF_ROUNDS", "10"))):
        for c in configs(rng, tier):
            k = json.dumps(c, sort_keys=True, default=str)
            if k not in seen:
                seen.add(k)
                out.append(c)
    return out


def torch_crash_region(c: Dict[str, Any], dt: str) -> bool:
    """PyTorch itself (plain F.conv1d, no unit_scaling involved) segfaults on CPU for float16
    with kernel_size 1, dilation > 1, stride > 1 and padding > 0 at some thread counts
    (reproducer in DESIGN.md section 6).  Not an input on which any verdict can be observed."""
    return dt == "f16" and c.get("op") == "conv1d" and c["k"] == 1 and c["dilation"] > 1


def _broadcastable(a: List[int], b: List[int]) -> bool:
    try:
        torch.broadcast_shapes(tuple(a), tuple(b))
        return True
    except RuntimeError:
        return False


def error_configs(rng: random.Random) -> List[Dict[str, Any]]:
    """Configurations that must be rejected: one non-default unsupported argument at a time,
    invalid reduction, logits of rank > 2, unknown constraint names, mismatched mse shapes."""
    E: List[Dict[str, Any]] = []
    base = {
        "silu": {"op": "silu", "mult": 1.0, "batch": [2], "n": 3},
        "dropout": {"op": "dropout", "p": 0.25, "training": True, "batch": [2], "n": 3},
        "add": {"op": "add", "sa": [2, 3], "sb": [2, 3]},
        "embedding": {"op": "embedding", "batch": [3], "vocab": 5, "dim": 2, "padding_idx": None, "max_norm": None},
        "cross_entropy": {"op": "cross_entropy", "vocab": 4, "batch_size": 3, "reduction": "mean", "mult": 1.0},
        "mse_loss": {"op": "mse_loss", "shape": [2, 3], "reduction": "mean"},
    }
    for op, args in UNSUPPORTED.items():
        for (k, v) in args:
            E.append(dict(base[op], extra={k: v}, expect="unsupported:" + k))
    E.append(dict(base["cross_entropy"], reduction="none", expect="invalid_reduction"))
    E.append(dict(base["mse_loss"], reduction="none", expect="invalid_reduction"))
    E.append({"op": "cross_entropy", "vocab": 4, "batch_size": 2, "logit_shape": [2, 4, 3], "reduction": "mean", "mult": 1.0, "expect": "logits_rank"})
    E.append(dict(base["mse_loss"], target_shape=[3], expect="mse_shape"))
    for op, c in (("gelu", {"op": "gelu", "mult": 1.0, "batch": [2], "n": 3}), ("matmul", {"op": "matmul", "batch": [], "a": 2, "b": 3, "c": 2}),
                  ("linear", {"op": "linear", "batch": [2], "fan_in": 3, "fan_out": 2}), ("add", {"op": "add", "sa": [2], "sb": [2]}),
                  ("softmax", {"op": "softmax", "mult": 1.0, "batch": [2], "n": 3, "dim": -1}),
                  ("conv1d", {"op": "conv1d", "batch": [1], "cin": 2, "cout": 2, "k": 2, "len": 4, "stride": 1, "padding": 0, "dilation": 1, "groups": 1})):
        E.append(dict(c, constraint="not_a_constraint", expect="unknown_constraint"))
    return E
