"""C15 -- format simulation = straight-through quantisation exactly at matmul boundaries.

L2: SimFormat_MC: every graph with <= 2 (thorough 3) op nodes over all call styles of linear / attention (positional,
    keyword bias, positional / keyword mask, dropout_p, is_causal, unit-scaled forms, extra positional constraint):
    Expand(Rewrite(G)) = Recipe(G) up to argument-passing style, nothing else changes, the rewritten call binds no
    parameter twice; the two pre-fix deviations are refuted.  Quantise_MC/Quantise_Trace cover the value sets.
L3: (B) straight-through functions: (x, quantise_fwd(x), g, grad) and (x, quantise_bwd(x), g, grad) bit patterns
    through Quantise_Trace + identity clauses.  (A) random real FX graphs -> the real _quantisation_backend(f, b);
    TLC (SimFormat_Eval) emits the RECIPE graph with explicit Qf/Qb nodes, which is built into a reference module and
    compared BITWISE on outputs and every gradient with the transformed module under a pinned random source, for
    nearest / stochastic / explicit-srbits / lossless format pairs; lossless => bitwise equal to the untransformed
    module.  A module family goes through simulate_format / simulate_fp8 (TorchDynamo) against hand-written references.
"""
from __future__ import annotations

import json
import operator
import random
from typing import Any, Callable, Dict, List, Optional, Tuple

import numpy as np
import torch
import torch.nn.functional as F
from torch import fx, nn

from . import common, fxgen, quant
from .common import Report


# ---------------------------------------------------------------------- reference straight-through ops
class _QF(torch.autograd.Function):
    @staticmethod
    def forward(ctx, x, fmt):
        return fmt.quantise(x.detach().clone())     # on a private copy: the reference must not depend on quantise leaving its argument alone

    @staticmethod
    def backward(ctx, g):
        return g, None


class _QB(torch.autograd.Function):
    @staticmethod
    def forward(ctx, x, fmt):
        ctx.fmt = fmt
        return x.view_as(x)

    @staticmethod
    def backward(ctx, g):
        return ctx.fmt.quantise(g.detach().clone()), None


CUR_FMT: Dict[str, Any] = {}   # "FWD"/"BWD" -> FPFormat for graph-built references (fx cannot embed the objects)


def qf(fmt, x):
    return _QF.apply(x, CUR_FMT[fmt] if isinstance(fmt, str) else fmt)


def qb(fmt, x):
    return _QB.apply(x, CUR_FMT[fmt] if isinstance(fmt, str) else fmt)


def formats(kind: str):
    from unit_scaling.formats import FPFormat

    return {
        "lossless": (FPFormat(8, 23, "nearest"), FPFormat(8, 23, "nearest")),
        "nearest": (FPFormat(4, 3, "nearest"), FPFormat(5, 2, "nearest")),
        "nearest_mixed": (FPFormat(3, 2, "nearest"), FPFormat(4, 3, "stochastic")),
        "stochastic": (FPFormat(4, 3), FPFormat(5, 2)),
        "srbits": (FPFormat(4, 3, "stochastic", srbits=2), FPFormat(5, 2, "stochastic", srbits=1)),
        "srbits_fwd_only": (FPFormat(4, 3, "stochastic", srbits=3), FPFormat(5, 2, "nearest")),
    }[kind]


FORMAT_KINDS = ["lossless", "nearest", "nearest_mixed", "stochastic", "srbits", "srbits_fwd_only"]


# ---------------------------------------------------------------------- random graphs
class Gen15:
    def __init__(self, rng: random.Random):
        self.rng, self.g, self.root = rng, fx.Graph(), nn.Module()
        self.np = 0
        self.consts: Dict[str, Any] = {}
        self.rank = rng.choice([2, 3, 4])
        self.shape = {2: (4, 8), 3: (2, 4, 8), 4: (2, 2, 4, 8)}[self.rank]
        self.x = self.g.placeholder("x")

    def param(self, *shape) -> fx.Node:
        self.np += 1
        name = f"p{self.np}"
        self.root.register_parameter(name, nn.Parameter(torch.randn(*shape) * 0.7))
        return self.g.get_attr(name)

    def op(self, h: fx.Node) -> fx.Node:
        import unit_scaling.functional as U

        g, r = self.g, self.rng
        k = r.choice(["lin2", "lin3", "linkw", "ulin3", "ulin2", "ulin_con", "ulinkw", "sdpa", "sdpa_mask_pos", "sdpa_causal_pos", "sdpa_kw", "usdpa", "usdpa_kw",
                      "ulin_pair", "ulin_pair", "lin_pair", "gelu", "tanh", "ln", "add", "reshape", "mul"])
        if k in ("ulin_pair", "lin_pair"):
            # NON-SQUARE weights (8 -> w -> 8): on square weights every constraint gives the same scales, which hides a
            # wrong / dropped constraint; every way of passing the constraint (omitted, positional, keyword, None)
            w = r.choice([3, 5, 16])
            def one(inp, fo, fi):
                if k == "lin_pair":
                    return g.call_function(F.linear, (inp, self.param(fo, fi)) + ((self.param(fo),) if r.random() < 0.5 else ()))
                style = r.choice(["omitted", "pos", "kw", "pos_none", "kw_none"])
                con = r.choice(["gmean", "hmean", "to_grad_input_scale", "to_output_scale"])
                bias = r.choice([None, "p"])
                b = self.param(fo) if bias else None
                if style == "omitted":
                    return g.call_function(U.linear, (inp, self.param(fo, fi)) + ((b,) if b is not None else ()))
                if style == "pos":
                    return g.call_function(U.linear, (inp, self.param(fo, fi), b, con))
                if style == "pos_none":
                    return g.call_function(U.linear, (inp, self.param(fo, fi), b, None))
                return g.call_function(U.linear, (inp, self.param(fo, fi)), dict({"constraint": con if style == "kw" else None}, **({"bias": b} if b is not None else {})))
            return one(one(h, w, 8), 8, w)
        if r.random() < 0.15:      # TENSOR operands by keyword (TorchDynamo keeps the caller's argument style)
            if k in ("lin2", "lin3", "linkw"):
                return g.call_function(F.linear, (), {"input": h, "weight": self.param(8, 8), **({"bias": self.param(8)} if k != "lin2" else {})})
            if k in ("ulin2", "ulin3", "ulinkw"):
                return g.call_function(U.linear, (h,), {"weight": self.param(8, 8), "bias": self.param(8), "constraint": "gmean"})
            if k in ("sdpa", "sdpa_kw"):
                return g.call_function(F.scaled_dot_product_attention, (), {"query": h, "key": h, "value": g.call_function(torch.tanh, (h,))})
            if k in ("usdpa", "usdpa_kw"):
                return g.call_function(U.scaled_dot_product_attention, (h,), {"key": h, "value": h, "mult": 2.0})
        if k == "lin2":
            return g.call_function(F.linear, (h, self.param(8, 8)))
        if k == "lin3":
            return g.call_function(F.linear, (h, self.param(8, 8), self.param(8)))
        if k == "linkw":
            return g.call_function(F.linear, (h, self.param(8, 8)), {"bias": self.param(8)})
        if k == "ulin3":
            return g.call_function(U.linear, (h, self.param(8, 8), r.choice([None, self.param(8)])))
        if k == "ulin2":
            return g.call_function(U.linear, (h, self.param(8, 8)))
        if k == "ulin_con":
            return g.call_function(U.linear, (h, self.param(8, 8), None, r.choice(["gmean", None, "to_grad_input_scale"])))
        if k == "ulinkw":
            return g.call_function(U.linear, (h, self.param(8, 8)), {"bias": self.param(8), "constraint": "hmean"})
        if k in ("sdpa", "usdpa"):
            fn = F.scaled_dot_product_attention if k == "sdpa" else U.scaled_dot_product_attention
            return g.call_function(fn, (h, g.call_function(torch.tanh, (h,)), h))
        if k == "sdpa_mask_pos":
            m = self.param(self.shape[-2], self.shape[-2])
            return g.call_function(F.scaled_dot_product_attention, (h, h, h, m))
        if k == "sdpa_causal_pos":
            return g.call_function(F.scaled_dot_product_attention, (h, h, h, None, 0.0, True))
        if k == "sdpa_kw":
            return g.call_function(F.scaled_dot_product_attention, (h, h, h), {"attn_mask": self.param(self.shape[-2], self.shape[-2]), "dropout_p": 0.0})
        if k == "usdpa_kw":
            return g.call_function(U.scaled_dot_product_attention, (h, h, h), {"is_causal": r.random() < 0.5, "mult": r.choice([0.5, 2.0])})
        if k == "gelu":
            return g.call_function(F.gelu, (h,))
        if k == "tanh":
            return g.call_function(torch.tanh, (h,))
        if k == "ln":
            return g.call_function(F.layer_norm, (h, (8,)))
        if k == "add":
            return g.call_function(operator.add, (h, self.x))
        if k == "reshape":
            return g.call_method("reshape", (h,) + tuple(self.shape))
        return g.call_function(operator.mul, (h, 1.25))

    def build(self, depth: int) -> Tuple[fx.GraphModule, torch.Tensor]:
        h = self.x
        for _ in range(depth):
            h = self.op(h)
        self.g.output(h)
        self.g.lint()
        return fx.GraphModule(self.root, self.g), torch.randn(*self.shape)


def project(g: fx.Graph, table: Dict[str, Any], consts: Dict[str, Any]) -> List[Dict[str, Any]]:
    ids = {n.name: i + 1 for i, n in enumerate(g.nodes)}

    def enc(a):
        if isinstance(a, fx.Node):
            return ["n", ids[a.name]]
        if isinstance(a, (list, tuple)):
            return ["l", [enc(x) for x in a]]
        key = "None" if a is None else repr(a)
        consts[key] = a
        return ["c", key]

    out = []
    for n in g.nodes:
        tgt = "output" if n.op == "output" else fxgen.target_name(n.target)
        if n.op in ("call_function", "call_method"):
            table[tgt] = (n.op, n.target)
        out.append({"id": ids[n.name], "op": {"call_function": "call", "call_method": "call"}.get(n.op, n.op), "tgt": tgt,
                    "args": [enc(a) for a in n.args], "kw": [[k, enc(v)] for k, v in n.kwargs.items()]})
    return out


def build_reference(recipe: List[Dict[str, Any]], root: nn.Module, table: Dict[str, Any], consts: Dict[str, Any], fwd, bwd) -> fx.GraphModule:
    g = fx.Graph()
    nodes: Dict[int, fx.Node] = {}

    def dec(a):
        if a[0] == "n":
            return nodes[a[1]]
        if a[0] == "l":
            return tuple(dec(x) for x in a[1])
        if a[1] in ("FWD", "BWD"):
            return a[1]
        return consts[a[1]]

    for n in recipe:
        if n["op"] == "placeholder":
            nodes[n["id"]] = g.placeholder(n["tgt"][2:])
        elif n["op"] == "get_attr":
            nodes[n["id"]] = g.get_attr(n["tgt"][2:])
        elif n["op"] == "output":
            g.output(dec(n["args"][0]) if len(n["args"]) == 1 else tuple(dec(a) for a in n["args"]))
        else:
            args = tuple(dec(a) for a in n["args"])
            kw = {k: dec(v) for k, v in n["kw"]}
            if n["tgt"] == "Qf":
                nodes[n["id"]] = g.call_function(qf, args)
            elif n["tgt"] == "Qb":
                nodes[n["id"]] = g.call_function(qb, args)
            else:
                kind, target = table[n["tgt"]]
                nodes[n["id"]] = g.call_function(target, args, kw) if kind == "call_function" else g.call_method(target, args, kw)
    g.lint()
    return fx.GraphModule(root, g)


def run_pinned(gm: Callable, x: torch.Tensor, params: List[torch.Tensor], seed: int):
    for p in params:
        p.grad = None
    xi = x.clone().requires_grad_()
    torch.manual_seed(seed)
    y = gm(xi)
    y = y[0] if isinstance(y, tuple) else y
    up = torch.randn(y.shape, generator=torch.Generator().manual_seed(seed + 1))
    y.backward(up)
    return y.detach().clone(), xi.grad.clone(), [None if p.grad is None else p.grad.clone() for p in params]


def same(a, b) -> bool:
    ya, ga, pa = a
    yb, gb, pb = b
    if not (torch.equal(ya, yb) and torch.equal(ga, gb)):
        return False
    return all((u is None and v is None) or (u is not None and v is not None and torch.equal(u, v)) for u, v in zip(pa, pb))


def grads64(gm: Callable, x: torch.Tensor, seed: int):
    """Gradients of the ORIGINAL module computed in float64: the yardstick for how much float32 rounding
    (and therefore a float32 re-association) can move the gradients of this particular graph."""
    import copy

    g64 = copy.deepcopy(gm).double()
    params = list(g64.parameters())
    xi = x.double().requires_grad_()
    torch.manual_seed(seed)
    y = g64(xi)
    y = y[0] if isinstance(y, tuple) else y
    up = torch.randn(y.shape, generator=torch.Generator().manual_seed(seed + 1)).double()
    y.backward(up)
    return xi.grad, [p.grad for p in params]


def same_up_to_accumulation_order(a, b, truth=None, factor: float = 64.0) -> bool:
    """Outputs bitwise; gradients equal up to float32 re-association: the straight-through nodes add autograd nodes,
    which legitimately permutes the order in which the gradients of a tensor with three or more consumers are summed.
    The admissible distance is conditioned on the graph: `factor` x the distance of the ORIGINAL float32 gradients from
    the float64 gradients (never less than 2^-20 of the gradient's magnitude) -- a re-association is one more float32
    rounding of the same computation, so it moves the result by the same order as the float32 error already present."""
    ya, ga, pa = a
    yb, gb, pb = b
    if not torch.equal(ya, yb):
        return False
    tg, tp = truth if truth is not None else (None, [None] * len(pb))
    def close(u, v, t):
        if u is None or v is None:
            return u is None and v is None
        mag = max(1e-30, float(v.abs().max()))
        base_err = float((v.double() - t).abs().max()) if t is not None else 0.0
        return bool(float((u - v).abs().max()) <= max(factor * base_err, 2.0 ** -20 * mag))
    return close(ga, gb, tg) and all(close(u, v, t) for u, v, t in zip(pa, pb, tp))


def graph_cases(rep: Report, case_seeds: List[int]) -> None:
    import copy

    from unit_scaling.transforms._simulate_format import _quantisation_backend

    items = []
    for cs in case_seeds:      # every case is generated from its own seed (recorded for replays)
        rng = random.Random(cs)
        gen = Gen15(rng)
        gm, x = gen.build(rng.randint(1, 12))
        table: Dict[str, Any] = {}
        consts: Dict[str, Any] = {}
        g_in = project(gm.graph, table, consts)
        items.append((gm, x, table, consts, g_in, rng, cs))
    ev = common.tlc_eval("SimFormat_Eval", "SimFormat_Eval.cfg", [it[4] for it in items], tag="sfeval", timeout=1200)
    rep.states += ev["states"]
    rep.transitions += ev["transitions"]
    for i, ((gm, x, table, consts, g_in, rng, cs), e) in enumerate(zip(items, ev["out"])):
        if not (e["wf"] and e["refines"] and e["executes"]):
            raise common.MachineryError(f"SimFormat_Eval: spec-internal check failed for graph {i}: {e['wf']}, {e['refines']}, {e['executes']}")
        kind = rng.choice(FORMAT_KINDS)
        fwd, bwd = formats(kind)
        params = list(gm.parameters())
        seed = rng.randrange(1 << 20)
        base = run_pinned(gm, x, params, seed)
        CUR_FMT["FWD"], CUR_FMT["BWD"] = fwd, bwd
        ref = build_reference(e["recipe"], gm, table, consts, fwd, bwd)
        r_ref = run_pinned(ref, x, params, seed)
        label = f"formats={kind} ({fwd}, {bwd}); graph targets={[n_['tgt'] for n_ in g_in]}"
        case = {"graph": g_in, "formats": kind, "seed": seed, "code": gm.code, "case_seed": cs}
        rep.case(("graph", cs, kind), nontrivial=e["nquant"] >= 1)
        gm2 = fx.GraphModule(gm, copy.deepcopy(gm.graph))
        try:
            tm = _quantisation_backend(fwd, bwd)(gm2, [x])
            r_t = run_pinned(tm, x, params, seed)
        except Exception as ex:
            rep.violation(f"_quantisation_backend raised {type(ex).__name__}: {str(ex)[:140]}; {label}", dict(case, error=str(ex)[:200]), key=f"raised:{type(ex).__name__}")
            continue
        if not same(r_t, r_ref):
            rep.violation(f"transformed module differs (bitwise) from the reference built from the spec's recipe; {label}", case, key=f"differs_from_recipe:{kind}")
            continue
        if kind == "lossless" and not same_up_to_accumulation_order(r_t, base, grads64(gm, x, seed)):
            rep.violation(f"lossless format does not reproduce the original outputs (bitwise) / gradients (up to re-association); {label}", case, key="lossless")
        if e["nquant"] == 0 and not same(r_t, base):  # nothing inserted: bitwise
            rep.violation(f"graph without linear/attention ops changed by the transform; {label}", case, key="nothing_to_quantise")
        # model drift: the rewritten graph vs the algorithm model (argument splicing)
        obs = project(tm.graph, {}, {})
        exp = e["rewrite"]
        norm = lambda t: {"F.linear": "F.linear"}.get(t, t)
        names = {"uu._quantised_linear": "q.linear", "uu._quantised_u_linear": "q.u_linear", "uu._quantised_scaled_dot_product_attention": "q.sdpa",
                 "uu._quantised_u_scaled_dot_product_attention": "q.u_sdpa"}
        obs_t = [names.get(n_["tgt"], n_["tgt"]) for n_ in obs]
        if obs_t != [n_["tgt"] for n_ in exp]:
            rep.drift(f"rewritten graph targets {obs_t} != algorithm model {[n_['tgt'] for n_ in exp]}")


def straight_through(rep: Report, rng: random.Random, n_per: int) -> None:
    events: List[List[int]] = []
    from unit_scaling.formats import FPFormat

    for (E, M) in [(4, 3), (5, 2), (2, 1), (3, 4), (6, 9), (8, 7)]:
        f = FPFormat(E, M, "nearest")
        pats = quant.inputs_for_format(E, M, rng, 24, 0)
        pats = pats[pats < quant.INF]
        if len(pats) > n_per:
            pats = pats[np.array(sorted(rng.sample(range(len(pats)), n_per)))]
        x = quant.to_tensor(pats).requires_grad_()
        gpats = pats[::-1].copy()
        gup = quant.to_tensor(gpats)
        # quantise_fwd: value quantised, gradient untouched
        y = f.quantise_fwd(x)
        (gx,) = torch.autograd.grad(y, x, gup)
        xs, xm = quant.bits(x.detach())
        ys, ym = quant.bits(y.detach())
        for i in range(len(pats)):
            events.append([E, M, 0, 0, int(xs[i]), int(xm[i]), int(ym[i]), 0, int(ys[i]), 0])
        ident = torch.equal(gx.view(torch.int32), gup.view(torch.int32))
        events.append([E, M, 3, 0, int(ident), 1, 1, 1, 0, 0])
        # quantise_bwd: value untouched, gradient quantised
        x2 = quant.to_tensor(pats).requires_grad_()
        y2 = f.quantise_bwd(x2)
        (gx2,) = torch.autograd.grad(y2, x2, gup)
        ident2 = torch.equal(y2.detach().view(torch.int32), x2.detach().view(torch.int32))
        events.append([E, M, 3, 0, int(ident2), 1, 1, 1, 0, 0])
        gs, gm_ = quant.bits(gup)
        qs, qm = quant.bits(gx2)
        for i in range(len(pats)):
            if E == 8 and gm_[i] >= ((126 + 127) << 23):
                continue
            events.append([E, M, 0, 0, int(gs[i]), int(gm_[i]), int(qm[i]), 0, int(qs[i]), 0])
        rep.case(("straight_through", E, M))
    r = common.validate_traces("Quantise_Trace", "Quantise_Trace.cfg", events, timeout=900, tag="c15q")
    rep.add_trace_result(r)
    for (l, clause) in r["fails"]:
        e = events[l - 1]
        what = "straight-through identity pass altered (api flag)" if e[2] == 3 else "straight-through quantised pass"
        rep.violation(f"{what}: clause={clause} E={e[0]} M={e[1]} x=0x{e[5]:08x} result=0x{e[6]:08x}", {"event": e, "clause": clause}, key=f"straight_through:{clause}")


# ---------------------------------------------------------------------- TorchDynamo path
class MLP(nn.Module):
    def __init__(self):
        super().__init__()
        self.a = nn.Linear(8, 16)
        self.b = nn.Linear(16, 8, bias=False)

    def forward(self, x):
        return self.b(F.gelu(self.a(x)))

    def reference(self, x, f, b):
        h = qb(b, F.linear(qf(f, x), qf(f, self.a.weight), self.a.bias))
        h = F.gelu(h)
        return qb(b, F.linear(qf(f, h), qf(f, self.b.weight), None))


class Attn(nn.Module):
    def __init__(self):
        super().__init__()
        self.qkv = nn.Linear(8, 24)
        self.register_buffer("mask", torch.tril(torch.ones(4, 4, dtype=torch.bool)))

    def forward(self, x):
        q, k, v = self.qkv(x).chunk(3, dim=-1)
        return F.scaled_dot_product_attention(q, k, v, self.mask, 0.0, False) + F.linear(x, self.qkv.weight[:8], bias=self.qkv.bias[:8])

    def reference(self, x, f, b):
        h = qb(b, F.linear(qf(f, x), qf(f, self.qkv.weight), self.qkv.bias))
        q, k, v = h.chunk(3, dim=-1)
        a = qb(b, F.scaled_dot_product_attention(qf(f, q), qf(f, k), qf(f, v), self.mask, 0.0, False))
        w = self.qkv.weight[:8]
        l2 = qb(b, F.linear(qf(f, x), qf(f, w), bias=self.qkv.bias[:8]))
        return a + l2


class UMod(nn.Module):
    def __init__(self):
        super().__init__()
        import unit_scaling as uu

        self.l = uu.Linear(8, 8, bias=True, constraint="gmean")

    def forward(self, x):
        import unit_scaling.functional as U

        return U.gelu(self.l(x))

    def reference(self, x, f, b):
        import unit_scaling.functional as U

        return U.gelu(qb(b, U.linear(qf(f, x), qf(f, self.l.weight), self.l.bias, "gmean")))


def dynamo_cases(rep: Report, rng: random.Random, kinds: List[str]) -> None:
    from unit_scaling.formats import FPFormat
    from unit_scaling.transforms import simulate_format, simulate_fp8

    for cls in (MLP, Attn, UMod):
        for kind in kinds:
            torch.manual_seed(rng.randrange(1 << 20))
            m = cls()
            f, b = formats(kind)
            x = torch.randn(2, 4, 8)
            seed = rng.randrange(1 << 20)
            rep.case(("dynamo", cls.__name__, kind))
            case = {"module": cls.__name__, "formats": kind, "seed": seed}
            try:
                tm = simulate_format(m, f, b)
                params_t = list(tm.parameters())
                r_t = run_pinned(tm, x, params_t, seed)
            except Exception as ex:
                rep.violation(f"simulate_format({cls.__name__}) raised {type(ex).__name__}: {str(ex)[:160]} (formats {kind})", dict(case, error=str(ex)[:200]), key=f"dynamo_raised:{cls.__name__}")
                continue
            params = list(m.parameters())
            r_ref = run_pinned(lambda t: m.reference(t, f, b), x, params, seed)
            if not same(r_t, r_ref):
                rep.violation(f"simulate_format({cls.__name__}, {f}, {b}) differs bitwise from hand-written straight-through quantisation", case, key=f"dynamo_differs:{cls.__name__}:{kind}")
            if kind == "lossless" and not same_up_to_accumulation_order(r_t, run_pinned(m, x, params, seed), grads64(m, x, seed)):
                rep.violation(f"simulate_format({cls.__name__}) with a lossless format changes outputs/gradients", case, key="dynamo_lossless")
        # simulate_fp8 == simulate_format(E4M3, E5M2)
        torch.manual_seed(11)
        m = cls()
        x = torch.randn(2, 4, 8)
        t8 = simulate_fp8(m)
        tf = simulate_format(m, FPFormat(4, 3), FPFormat(5, 2))
        rep.case(("fp8", cls.__name__))
        try:
            if not same(run_pinned(t8, x, list(t8.parameters()), 5), run_pinned(tf, x, list(tf.parameters()), 5)):
                rep.violation(f"simulate_fp8({cls.__name__}) is not simulate_format(E4M3, E5M2)", {"module": cls.__name__}, key="fp8_instance")
        except Exception as ex:
            rep.violation(f"simulate_fp8({cls.__name__}) raised {type(ex).__name__}: {str(ex)[:160]}", {"module": cls.__name__, "error": str(ex)[:200]}, key=f"dynamo_raised:{cls.__name__}")
    # root module that is itself a torch.nn layer
    torch.manual_seed(3)
    lin = nn.Linear(8, 8)
    f, b = formats("nearest")
    x = torch.randn(4, 8)
    tl = simulate_format(lin, f, b)
    y = tl(x)
    ref = qb(b, F.linear(qf(f, x), qf(f, lin.weight), lin.bias))
    rep.case(("root_linear",))
    if not torch.equal(y, ref):
        rep.violation("simulate_format(nn.Linear(...)) (root module itself a torch.nn layer) is not quantised", {"module": "nn.Linear as root"}, key="root_nn_layer")


def format_round_trip(rep: Report) -> None:
    """spec/Format.tla: every constructible FPFormat survives format_to_tuple / tuple_to_format unchanged, and the
    construction rules (defaulting of srbits, rejections) are the spec's."""
    from unit_scaling.formats import FPFormat, format_to_tuple, tuple_to_format

    res = common.run_tlc("Format_MC", "Format_MC.cfg", coverage=True, timeout=300, tag="fmtmc")
    common.tlc_must_pass(res, "Format_MC")
    rep.add_tlc(res)
    for leg in ("tuple_drops_rounding", "tuple_drops_srbits"):
        r = common.run_tlc("Format_MC", f"Format_MC_{leg}.cfg", timeout=300, tag="fmtleg")
        common.tlc_must_fail(r, f"Format Legacy={leg}", "RoundTripOK")
        rep.extra.setdefault("l2_refuted_deviations", []).append({"legacy": leg, "violated": r.violated_invariant})
    fmts = res.printed("FMT")
    if len(fmts) < 1000:
        raise common.MachineryError(f"Format_MC emitted only {len(fmts)} formats")
    for rec in fmts:
        rep.case(("fmt", rec["E"], rec["M"], rec["r"], rec["s"]), nontrivial=rec["r"] == "nearest" or rec["s"] != 23 - rec["M"])
        try:
            f = FPFormat(rec["E"], rec["M"], rec["r"], rec["s"])
        except AssertionError as ex:
            rep.violation(f"FPFormat({rec['E']}, {rec['M']}, {rec['r']!r}, {rec['s']}) rejected: {ex}", {"format": rec}, key="format_rejected")
            continue
        g = tuple_to_format(format_to_tuple(f))
        same = (g.exponent_bits, g.mantissa_bits, g.rounding, g.srbits) == (f.exponent_bits, f.mantissa_bits, f.rounding, f.srbits) == (rec["E"], rec["M"], rec["r"], rec["s"])
        if not same:
            rep.violation(f"format tuple round trip changes FPFormat({rec['E']}, {rec['M']}, {rec['r']!r}, srbits={rec['s']}) into ({g.exponent_bits}, {g.mantissa_bits}, {g.rounding!r}, srbits={g.srbits})",
                          {"format": rec}, key=f"format_round_trip:{'rounding' if g.rounding != f.rounding else 'srbits'}")
    for bad in ((1, 3, "nearest", 0), (4, 3, "nearest", 2)):
        try:
            FPFormat(*bad)
            rep.beyond(f"FPFormat{bad} accepted (spec Format.tla: rejected)")   # construction rules are outside C15's statement
        except AssertionError:
            pass


def run(rep: Report, tier: str) -> None:
    rng = random.Random(common.seed() * 61 + 18)
    torch.manual_seed(common.seed())
    torch.set_num_threads(2)
    quick = tier == "quick"
    res = common.run_tlc("SimFormat_MC", "SimFormat_MC.cfg" if quick else "SimFormat_MC_3.cfg", coverage=True, timeout=2400, tag="sfmc")
    common.tlc_must_pass(res, "SimFormat_MC")
    rep.add_tlc(res)
    for leg in ("bias_kw_ignored", "attn_positional", "kw_operands_unsupported"):
        r = common.run_tlc("SimFormat_MC", f"SimFormat_MC_{leg}.cfg", timeout=300, tag="sfleg")
        common.tlc_must_fail(r, f"SimFormat Legacy={leg}")
        rep.extra.setdefault("l2_refuted_deviations", []).append({"legacy": leg, "violated": r.violated_invariant})
    format_round_trip(rep)
    straight_through(rep, rng, 200 if quick else 2000)
    graph_cases(rep, [rng.randrange(1 << 30) for _ in range(150 if quick else 2000)])
    dynamo_cases(rep, rng, ["nearest", "srbits", "stochastic"] if quick else FORMAT_KINDS)
    rep.rule = "random FX graphs of depth 1-12 over the call styles of linear / attention (+ elementwise, norm, add, reshape), inputs of rank 2-4, one of 6 format pairs each; straight-through bit patterns for 6 formats; module family x formats through TorchDynamo; non-trivial = graphs with at least one quantisable op"
    rep.sample({"format_kinds": FORMAT_KINDS})
    rep.assumptions += ["FPFormat.quantise itself is covered by C13/C14; the reference Qf/Qb are harness-defined autograd functions around it", "random source pinned with torch.manual_seed; same call order of torch.randint in reference and transformed module"]


def replay(rep: Report, path: str) -> None:
    """Graph cases are re-created from their case seed; the (few) other cases by re-running the quick tier."""
    d = json.load(open(path))
    rep.case("replay")
    rep.case(json.dumps(d["case"], default=str)[:200])
    rep.sample({k: v for k, v in d["case"].items() if k != "graph"})
    torch.set_num_threads(2)
    if d["case"].get("case_seed") is not None:
        graph_cases(rep, [int(d["case"]["case_seed"])])
    else:
        run(rep, "quick")
