"""C07 -- the transformer residual rule balances layer contributions at every depth.

L2: ResidualRule_MC: one-step lemma (1+tau_i^2) S_i = S_{i+1} for every branch of every depth in the
    layer set x the 8x8 (mult, ratio) grid, telescoped totals (sum = 1, attn:mlp = ratio^2, mean/embedding = mult^2),
    explicit contribution products for depths <= 6; deviations off_by_one / parity_swap refuted.
L3 (A): ResidualRule_Eval emits tau^2 (exact rationals) for (mult, ratio, layers); the harness compares the real
    transformer_residual_scaling_rule -- fresh rule objects AND one rule object queried for a random sequence of
    depths (histories) -- and the mhsa_tau/mlp_tau of constructed TransformerStack / TransformerDecoder.
"""
from __future__ import annotations

import json
import random
from fractions import Fraction
from typing import Any, Dict, List, Tuple

import torch

from . import common
from .common import Report

GRID = [(1, 16), (1, 4), (1, 2), (1, 1), (3, 2), (2, 1), (4, 1), (16, 1)]
TOL = 1e-12


def cmp_tau(rep: Report, got: float, exp: List[int], what: str, case: Dict[str, Any], key: str) -> bool:
    e = Fraction(exp[0], exp[1])
    if abs(got * got - float(e)) > TOL * float(e):
        rep.violation(f"tau^2 = {got * got:.12g}, spec Tau2 = {e} = {float(e):.12g}: {what}", case, key=key)
        return False
    return True


def run(rep: Report, tier: str) -> None:
    from unit_scaling.core.functional import transformer_residual_scaling_rule
    import unit_scaling as uu
    from unit_scaling import _modules as M

    rng = random.Random(common.seed() * 7 + 1)
    quick = tier == "quick"
    res = common.run_tlc("ResidualRule_MC", "ResidualRule_MC.cfg" if quick else "ResidualRule_MC_all.cfg", coverage=True, timeout=3000, tag="rr")
    common.tlc_must_pass(res, "ResidualRule_MC")
    rep.add_tlc(res)
    for leg, cf in (("off_by_one", "ResidualRule_MC_leg1.cfg"), ("parity_swap", "ResidualRule_MC_leg2.cfg")):
        r = common.run_tlc("ResidualRule_MC", cf, timeout=300, tag="rrleg")
        common.tlc_must_fail(r, f"ResidualRule Legacy={leg}")
        rep.extra.setdefault("l2_refuted_deviations", []).append({"legacy": leg, "violated": r.violated_invariant})

    depths = [1, 2, 3, 4, 5, 8, 16, 31, 32, 64, 100, 255, 256] if quick else list(range(1, 257))
    cases = [{"mult": list(m), "ratio": list(r), "layers": d} for m in GRID for r in GRID for d in depths]
    if quick:
        cases = [c for c in cases if c["layers"] <= 8 or rng.random() < 0.25]
    out: List[Any] = []
    B = 600
    for i in range(0, len(cases), B):
        ev = common.tlc_eval("ResidualRule_Eval", "ResidualRule_Eval.cfg", cases[i : i + B], tag="rreval", timeout=1200)
        rep.states += ev["states"]
        rep.transitions += ev["transitions"]
        out += ev["out"]
    table: Dict[Tuple[Tuple[int, int], Tuple[int, int], int], List[List[int]]] = {}
    for c, o in zip(cases, out):
        table[(tuple(c["mult"]), tuple(c["ratio"]), c["layers"])] = o
    rep.exhaustive = not quick
    # (1) fresh rule object per (mult, ratio, depth)
    for c, o in zip(cases, out):
        m, r, d = Fraction(*c["mult"]), Fraction(*c["ratio"]), c["layers"]
        rule = transformer_residual_scaling_rule(float(m), float(r))
        for i in range(2 * d):
            if not cmp_tau(rep, rule(i, 2 * d), o[i], f"fresh rule(mult={m}, ratio={r})(index={i}, layers={2 * d})", {"mode": "fresh", **c, "index": i}, key=f"fresh:{'attn' if i % 2 == 0 else 'mlp'}"):
                break
        rep.case(("fresh", c["mult"][0], c["mult"][1], c["ratio"][0], c["ratio"][1], d))
    # (2) ONE rule object queried for a sequence of depths, in random order (histories)
    by_hyper: Dict[Tuple[Tuple[int, int], Tuple[int, int]], List[int]] = {}
    for (m, r, d) in table:
        by_hyper.setdefault((m, r), []).append(d)
    for (m, r), ds in sorted(by_hyper.items()):
        rule = transformer_residual_scaling_rule(float(Fraction(*m)), float(Fraction(*r)))
        for rnd in range(2 if quick else 6):
            seq = [rng.choice(ds) for _ in range(4)]
            ok = True
            for d in seq:
                o = table[(m, r, d)]
                idx = list(range(2 * d))
                if rng.random() < 0.5:
                    rng.shuffle(idx)
                for i in idx:
                    if not cmp_tau(rep, rule(i, 2 * d), o[i], f"shared rule(mult={Fraction(*m)}, ratio={Fraction(*r)}) after depth history {seq}: (index={i}, layers={2 * d})",
                                   {"mode": "shared", "mult": list(m), "ratio": list(r), "history": seq, "layers": d, "index": i}, key="shared_rule_history"):
                        ok = False
                        break
                if not ok:
                    break
            rep.case(("shared", m, r, tuple(seq)))
    # (3) stacks: default rule object shared by all stacks, several depths in one process, in random order
    # depths on both sides of every decimal-digit boundary of the child names ("9"/"10"/"11", "99"/"100"/"101"): the
    # stack registers its layers under str(index), and the order they RUN in is the order read here (list(module))
    stack_depths = [1, 2, 3, 4, 5, 6, 7, 8, 10, 11, 12, 21, 101] + ([] if quick else [9, 33, 64, 99, 100, 128, 255, 256])
    order = stack_depths * 2
    rng.shuffle(order)
    need = [{"mult": [1, 1], "ratio": [1, 1], "layers": d} for d in sorted(set(order))]
    hyper2 = (3, 2), (1, 2)
    need += [{"mult": list(hyper2[0]), "ratio": list(hyper2[1]), "layers": d} for d in sorted(set(order))]
    ev = common.tlc_eval("ResidualRule_Eval", "ResidualRule_Eval.cfg", need, tag="rreval2", timeout=600)
    rep.states += ev["states"]
    rep.transitions += ev["transitions"]
    exp = {(tuple(c["mult"]), c["layers"]): o for c, o in zip(need, ev["out"])}
    custom_rule = transformer_residual_scaling_rule(1.5, 0.5)
    for n, d in enumerate(order):
        kind = ["stack_default", "decoder_default", "stack_custom"][n % 3]
        if kind == "stack_default":
            mod = M.TransformerStack(layers=d, hidden_size=4, heads=1, is_causal=True)
            layers, o = list(mod), exp[((1, 1), d)]
        elif kind == "decoder_default":
            mod = M.TransformerDecoder(hidden_size=4, vocab_size=5, layers=d, heads=1)
            layers, o = list(mod.layers), exp[((1, 1), d)]
        else:
            mod = M.TransformerStack(layers=d, hidden_size=4, heads=1, is_causal=False, residual_scaling=custom_rule)
            layers, o = list(mod), exp[((3, 2), d)]
        rep.case((kind, d, n))
        if len(layers) != d:
            rep.violation(f"{kind} with layers={d} has {len(layers)} layers", {"mode": kind, "layers": d}, key="stack_len")
            continue
        for k, layer in enumerate(layers):
            c = {"mode": kind, "layers": d, "order": order[: n + 1], "layer": k}
            if not cmp_tau(rep, layer.mhsa_tau, o[2 * k], f"{kind}(layers={d}) layer {k} mhsa_tau (construction order {order[: n + 1]})", c, key=f"{kind}:mhsa"):
                break
            if not cmp_tau(rep, layer.mlp_tau, o[2 * k + 1], f"{kind}(layers={d}) layer {k} mlp_tau (construction order {order[: n + 1]})", c, key=f"{kind}:mlp"):
                break
    # (4) stacks built with the rule created INLINE (a temporary, dead after the constructor), several (mult, ratio) at the
    # same depth one after another -- a hyper-parameter sweep in one process; decoders likewise
    sweeps = []
    for d in ([1, 2, 3] if quick else [1, 2, 3, 4, 8, 16]):
        for _ in range(2 if quick else 6):
            sweeps.append((d, [(rng.choice(GRID), rng.choice(GRID)) for _ in range(4)]))
    need = [{"mult": list(m), "ratio": list(r), "layers": d} for d, seq in sweeps for (m, r) in seq]
    ev = common.tlc_eval("ResidualRule_Eval", "ResidualRule_Eval.cfg", need, tag="rreval3", timeout=600)
    rep.states += ev["states"]
    rep.transitions += ev["transitions"]
    it = iter(ev["out"])
    for si, (d, seq) in enumerate(sweeps):
        for n, (m, r) in enumerate(seq):
            o = next(it)
            mf, rf = float(Fraction(*m)), float(Fraction(*r))
            if (si + n) % 3 == 2:
                kind, layers = "decoder_inline", list(M.TransformerDecoder(hidden_size=4, vocab_size=5, layers=d, heads=1, residual_scaling=transformer_residual_scaling_rule(mf, rf)).layers)
            else:
                kind, layers = "stack_inline", list(M.TransformerStack(layers=d, hidden_size=4, heads=1, is_causal=True, residual_scaling=transformer_residual_scaling_rule(mf, rf)))
            rep.case((kind, d, si, n))
            c = {"mode": kind, "layers": d, "sweep": [[list(a), list(b)] for a, b in seq[: n + 1]]}
            if len(layers) != d:
                rep.violation(f"{kind} with layers={d} has {len(layers)} layers", c, key="stack_len")
                continue
            # module histories: the taus a stack carries are hyper-parameters, not state -- casting / moving / copying the
            # module must not change them
            hist = rng.choice([[], ["float"], ["half"], ["bfloat16"], ["to_bf16", "double"], ["deepcopy", "float"], ["half", "float"], ["train_eval"]])
            modobj = None
            if hist:
                import copy as _copy
                modobj = (M.TransformerDecoder(hidden_size=4, vocab_size=5, layers=d, heads=1, residual_scaling=transformer_residual_scaling_rule(mf, rf)) if kind == "decoder_inline"
                          else M.TransformerStack(layers=d, hidden_size=4, heads=1, is_causal=True, residual_scaling=transformer_residual_scaling_rule(mf, rf)))
                for h in hist:
                    modobj = {"float": lambda z: z.float(), "half": lambda z: z.half(), "bfloat16": lambda z: z.bfloat16(), "to_bf16": lambda z: z.to(torch.bfloat16),
                              "double": lambda z: z.double(), "deepcopy": lambda z: _copy.deepcopy(z), "train_eval": lambda z: z.eval().train()}[h](modobj)
                layers = list(modobj.layers) if kind == "decoder_inline" else list(modobj)
                c = dict(c, module_history=hist)
            for k, layer in enumerate(layers):
                what = f"{kind}(layers={d}, mult={Fraction(*m)}, ratio={Fraction(*r)}) layer {k} (after the sweep {seq[:n]} at the same depth; module history {hist})"
                if not cmp_tau(rep, layer.mhsa_tau, o[2 * k], what + " mhsa_tau", dict(c, layer=k), key=f"{kind}:mhsa"):
                    break
                if not cmp_tau(rep, layer.mlp_tau, o[2 * k + 1], what + " mlp_tau", dict(c, layer=k), key=f"{kind}:mlp"):
                    break
    rep.traces = rep.evaluations
    rep.rule = (
        "(mult, ratio) on the 8x8 rational grid in [1/16,16] x depths (quick: 13 depths, sampled above 8; thorough: all 1..256); fresh rule per case, one shared rule "
        "object queried for random depth sequences, and TransformerStack/TransformerDecoder built for several depths in random order, and sweeps of inline (temporary) rules at one depth; non-trivial = all"
    )
    rep.sample({"case": cases[0], "spec_tau2": out[0][:4]})
    rep.sample({"case": cases[-1], "spec_tau2_first": out[-1][:2]})
    rep.assumptions += ["tau^2 compared with the spec's rational at 1e-12 relative (float64)"]


def replay(rep: Report, path: str) -> None:
    from unit_scaling.core.functional import transformer_residual_scaling_rule
    import unit_scaling as uu
    from unit_scaling import _modules as M

    d = json.load(open(path))
    c = d["case"]
    rep.case("replay")
    rep.case(json.dumps(c))
    rep.traces = 1
    rep.sample(c)
    if c["mode"] in ("fresh", "shared"):
        hist = c.get("history", [c["layers"]])
        need = [{"mult": c["mult"], "ratio": c["ratio"], "layers": x} for x in sorted(set(hist))]
        ev = common.tlc_eval("ResidualRule_Eval", "ResidualRule_Eval.cfg", need, tag="rreval")
        rep.states += ev["states"]
        rep.transitions += ev["transitions"]
        exp = {n["layers"]: o for n, o in zip(need, ev["out"])}
        rule = transformer_residual_scaling_rule(float(Fraction(*c["mult"])), float(Fraction(*c["ratio"])))
        for x in hist:
            for i in range(2 * x):
                if not cmp_tau(rep, rule(i, 2 * x), exp[x][i], f"replay {c['mode']} history {hist} index {i} layers {2 * x}", c, key="replay"):
                    return
    elif c["mode"] in ("stack_inline", "decoder_inline"):
        sweep = c["sweep"]
        need = [{"mult": m, "ratio": r, "layers": c["layers"]} for (m, r) in sweep]
        ev = common.tlc_eval("ResidualRule_Eval", "ResidualRule_Eval.cfg", need, tag="rreval")
        rep.states += ev["states"]
        rep.transitions += ev["transitions"]
        import copy as _copy
        casts = {"float": lambda z: z.float(), "half": lambda z: z.half(), "bfloat16": lambda z: z.bfloat16(), "to_bf16": lambda z: z.to(torch.bfloat16),
                 "double": lambda z: z.double(), "deepcopy": lambda z: _copy.deepcopy(z), "train_eval": lambda z: z.eval().train()}
        for si, ((m, r), o) in enumerate(zip(sweep, ev["out"])):
            mf, rf = float(Fraction(*m)), float(Fraction(*r))
            if c["mode"] == "decoder_inline":
                modobj = M.TransformerDecoder(hidden_size=4, vocab_size=5, layers=c["layers"], heads=1, residual_scaling=transformer_residual_scaling_rule(mf, rf))
            else:
                modobj = M.TransformerStack(layers=c["layers"], hidden_size=4, heads=1, is_causal=True, residual_scaling=transformer_residual_scaling_rule(mf, rf))
            if si == len(sweep) - 1:      # the recorded module history belongs to the last stack of the sweep
                for h in c.get("module_history", []):
                    modobj = casts[h](modobj)
            layers = list(modobj.layers) if c["mode"] == "decoder_inline" else list(modobj)
            for k, layer in enumerate(layers):
                if not cmp_tau(rep, layer.mhsa_tau, o[2 * k], f"replay {c['mode']} layer {k} mhsa_tau", c, key=f"{c['mode']}:mhsa") or \
                        not cmp_tau(rep, layer.mlp_tau, o[2 * k + 1], f"replay {c['mode']} layer {k} mlp_tau", c, key=f"{c['mode']}:mlp"):
                    return
    else:
        order = c.get("order", [c["layers"]])
        need = [{"mult": [1, 1], "ratio": [1, 1], "layers": x} for x in sorted(set(order))] + [{"mult": [3, 2], "ratio": [1, 2], "layers": x} for x in sorted(set(order))]
        ev = common.tlc_eval("ResidualRule_Eval", "ResidualRule_Eval.cfg", need, tag="rreval")
        rep.states += ev["states"]
        rep.transitions += ev["transitions"]
        exp = {(tuple(n["mult"]), n["layers"]): o for n, o in zip(need, ev["out"])}
        custom_rule = transformer_residual_scaling_rule(1.5, 0.5)
        for n, x in enumerate(order):
            kind = ["stack_default", "decoder_default", "stack_custom"][n % 3]
            if kind == "stack_default":
                layers, o = list(M.TransformerStack(layers=x, hidden_size=4, heads=1, is_causal=True)), exp[((1, 1), x)]
            elif kind == "decoder_default":
                layers, o = list(M.TransformerDecoder(hidden_size=4, vocab_size=5, layers=x, heads=1).layers), exp[((1, 1), x)]
            else:
                layers, o = list(M.TransformerStack(layers=x, hidden_size=4, heads=1, is_causal=False, residual_scaling=custom_rule)), exp[((3, 2), x)]
            for k, layer in enumerate(layers):
                if not (cmp_tau(rep, layer.mhsa_tau, o[2 * k], f"replay {kind} layers={x} layer {k} mhsa", c, key="replay") and cmp_tau(rep, layer.mlp_tau, o[2 * k + 1], f"replay {kind} layers={x} layer {k} mlp", c, key="replay")):
                    return
