"""C05 -- a constraint collapses forward and backward scales to one value: true gradients.

L2: Constraints_MC: all tuples of 1-3 (emitted) / 1-4 scales over 7 rationals: bounds, H <= G <= A (through n-th
    powers), symmetry, homogeneity, selection, collapse of ApplySym; deviation swap_h_a refuted.
L3 (A): (i) every tuple emitted by TLC replayed on the real gmean/hmean/amean/to_*/apply_constraint (and scaled by
    1e+-6); tuples of 4-6 scales evaluated point-wise by TLC.  (ii) for every op taking a constraint x every valid
    name x shapes: the scalars observed under constraint=None bind the free symbols of the spec's expression
    (ScaledOps_Eval C05), which is evaluated and compared with the scalars observed under the constraint: forward and
    every constrained input gradient collapse to that value; weight/bias scalars stay; fixed-group ops share one scale;
    torch.autograd.gradcheck on the constrained inputs.
"""
from __future__ import annotations

import json
import math
import random
from fractions import Fraction
from typing import Any, Dict, List, Optional

import torch

from . import common, ops
from .common import Report

TOL = 1e-9


def fr(p) -> Fraction:
    return Fraction(p[0], p[1])


def check_means(rep: Report, s: List[Fraction], exp: Dict[str, Any], scale: float, origin: str) -> None:
    from unit_scaling import constraints as K

    xs = [float(v) * scale for v in s]
    n = len(xs)
    h, a, gp = fr(exp["h"]), fr(exp["a"]), fr(exp["gpow"])
    got = {"hmean": K.hmean(*xs), "amean": K.amean(*xs), "gmean": K.gmean(*xs)}
    want = {"hmean": float(h) * scale, "amean": float(a) * scale, "gmean": (float(gp) ** (1.0 / n)) * scale}
    case = {"scales": [[v.numerator, v.denominator] for v in s], "scale": scale, "origin": origin}
    for k in ("hmean", "amean", "gmean"):
        if abs(got[k] - want[k]) > 1e-12 * want[k]:
            rep.violation(f"{k}{tuple(xs)} = {got[k]!r}, spec = {want[k]!r}", dict(case, fn=k), key=f"mean:{k}")
            return
    # g^n = product, exactly the spec's characterisation
    if abs(got["gmean"] ** n - float(gp) * scale ** n) > 1e-10 * float(gp) * scale ** n:
        rep.violation(f"gmean{tuple(xs)}^n != product", dict(case, fn="gmean_pow"), key="mean:gmean_pow")
    for name in ("gmean", "hmean", "amean"):
        r = K.apply_constraint(name, *xs)
        if len(r) != n or any(v != r[0] for v in r) or abs(r[0] - want[name]) > 1e-12 * want[name]:
            rep.violation(f"apply_constraint({name!r}, {xs}) = {r}: not the collapsed {name}", dict(case, fn="apply:" + name), key=f"apply:{name}")
            return
    for name in (None, ""):
        if tuple(K.apply_constraint(name, *xs)) != tuple(xs):
            rep.violation(f"apply_constraint({name!r}) is not the identity", dict(case, fn="apply:none"), key="apply:none")
    sel = {"to_output_scale": 0}
    if n == 2:
        sel["to_grad_input_scale"] = 1
    if n == 3:
        sel["to_left_grad_scale"] = 1
        sel["to_right_grad_scale"] = 2
    for name, idx in sel.items():
        r = K.apply_constraint(name, *xs)
        if len(r) != n or any(v != xs[idx] for v in r):
            rep.violation(f"apply_constraint({name!r}, {xs}) = {r}: expected all = {xs[idx]}", dict(case, fn="apply:" + name), key=f"apply:{name}")
    try:
        K.apply_constraint("definitely_not_a_constraint", *xs)
        rep.violation("unknown constraint name accepted by apply_constraint", dict(case, fn="apply:unknown"), key="apply:unknown")
    except ValueError:
        pass


def eval_expr(e: Dict[str, Any], free: List[float]) -> float:
    if e["k"] == "free":
        return free[e["i"] - 1]
    if e["k"] == "amean":
        return sum(free) / len(free)
    if e["k"] == "hmean":
        return len(free) / sum(1 / v for v in free)
    if e["k"] == "gmean":
        return math.exp(sum(math.log(v) for v in free) / len(free))
    raise common.MachineryError(f"unknown expression {e}")


def base_cfgs(rng: random.Random, per_op: int) -> List[Dict[str, Any]]:
    out = []
    for _ in range(per_op):
        bt = rng.choice([[], [2], [2, 3], [1, 2, 2]])
        out.append({"op": "gelu", "mult": rng.choice([0.25, 1.0, 3.0]), "approximate": rng.choice(["none", "tanh"]), "batch": bt, "n": rng.choice([1, 4])})
        out.append({"op": "silu", "mult": rng.choice([0.25, 1.0, 3.0]), "batch": bt, "n": 3})
        n = rng.choice([2, 5])
        # non-degenerate on purpose: softmax with mult = 1 has identical output / gradient scales (all six names coincide), matmul with
        # a = c has equal left / right gradient scales -- such cases cannot tell a wrong selection from a right one
        out.append({"op": "softmax", "mult": rng.choice([0.25, 3.0]), "batch": bt, "n": n, "dim": rng.choice([-1, 0]) if bt else -1})
        a_ = rng.choice([1, 2, 5])
        out.append({"op": "matmul", "batch": rng.choice([[], [2], [2, 3]]), "a": a_, "b": rng.choice([3, 4, 7]), "c": rng.choice([v for v in (1, 2, 6) if v != a_])})
        # one operand broadcast over the other's batch dims (a shared weight matrix applied with matmul): whatever the unconstrained
        # scales are there, a constraint must still collapse output and both gradient scales to the one rule value
        bl, br = [([4], []), ([], [4]), ([2, 1], [3]), ([3], [2, 1])][_ % 4]
        out.append({"op": "matmul", "batch": [], "batch_left": bl, "batch_right": br, "a": a_, "b": rng.choice([3, 4, 7]), "c": rng.choice([v for v in (1, 2, 6) if v != a_])})
        # discrete hyper-parameters that change which formula applies are ENUMERATED in every round (never sampled):
        # bias yes/no, groups 1/2 (3 in every third round), attention heads None/2
        for op in ("linear", "linear_readout"):
            for bias in (False, True):
                out.append({"op": op, "batch": bt, "fan_in": rng.choice([1, 3, 8]), "fan_out": rng.choice([1, 2, 5]), "bias": bias})
        for g in (1, 2, 3)[: 3 if _ % 3 == 2 else 2]:
            k, st, dil = rng.choice([1, 2, 3]), rng.choice([1, 2]), rng.choice([1, 2])
            out.append({"op": "conv1d", "batch": rng.choice([[], [2]]), "cin": g * rng.choice([1, 2]), "cout": g * rng.choice([1, 3]), "k": k, "len": dil * (k - 1) + 1 + rng.choice([0, 2, 5]),
                        "stride": st, "padding": rng.choice([0, 1]), "dilation": dil, "groups": g, "bias": rng.random() < 0.6})
        shapes = [[3], [1], [2, 3], [1, 3], [2, 1], [2, 1, 3], [1, 1], [], [4, 2, 3]]
        while True:
            sa, sb = rng.choice(shapes), rng.choice(shapes)
            if ops._broadcastable(sa, sb):
                break
        out.append({"op": "add", "sa": sa, "sb": sb})
        out.append({"op": "add", "sa": rng.choice([[2, 3], [4, 2, 3]]), "sb": rng.choice([[3], [1, 3], [1]])})     # operands of DIFFERENT sizes: left / right scales differ
        out.append({"op": "silu_glu", "mult": rng.choice([0.25, 1.0, 3.0]), "batch": bt, "n": 3})
        for heads in (None, 2):
            out.append({"op": "scaled_dot_product_attention", "batch": rng.choice([[], [2]]), "heads": heads, "seq": rng.choice([2, 4]), "d_head": rng.choice([1, 3]),
                        "mult": rng.choice([0.25, 1.0, 3.0]), "is_causal": rng.random() < 0.5, "mask": None, "dropout_p": None})
        # attention with dropout (RNG pinned): the (1 - p)^0.5 factor belongs to the ONE shared scale of the fixed group
        out.append({"op": "scaled_dot_product_attention", "batch": [2], "heads": None, "seq": rng.choice([2, 4]), "d_head": rng.choice([2, 3]),
                    "mult": rng.choice([0.25, 1.0, 3.0]), "is_causal": False, "mask": None, "dropout_p": rng.choice([0.1, 0.3, 0.5])})
        out.append({"op": "dropout", "p": 0.25, "training": True, "batch": bt, "n": 5})
    return out


def scalars(cfg: Dict[str, Any]) -> Optional[Dict[str, float]]:
    o = ops.probe(cfg, 0)
    if o["err"] is not None:
        return {"__err__": o["err"]}  # type: ignore
    d = {"out": o["fwd"]}
    for k, v in o.get("bwd", {}).items():
        if v["f"] is not None and not v["zero_ref"]:
            d[k] = v["f"]
    return d


def gradcheck_cfg(cfg: Dict[str, Any], group_inputs: List[str]) -> bool:
    b = ops.build(dict(cfg, dtype="f64"), 0)
    names = [k for k in group_inputs if k in b.inputs]
    ins = {k: v.clone() for k, v in b.inputs.items()}
    for k in names:
        ins[k] = ins[k].clone().requires_grad_(True)

    def f(*ts):
        local = dict(ins)
        for k, t in zip(names, ts):
            local[k] = t
        return b.u(local)

    return bool(torch.autograd.gradcheck(f, tuple(ins[k] for k in names), eps=1e-6, atol=1e-6, rtol=1e-5, raise_exception=False))


def check_op(rep: Report, cfg: Dict[str, Any], spec: Dict[str, Dict[str, Any]], rng: random.Random, do_gradcheck: bool) -> None:
    op = cfg["op"]
    names = sorted({k for (o, k) in spec if o == op and k != "__fixed__"})
    # process history: the same configuration (hence the same scale values) goes through the library in a LOWER precision
    # first; the float64 scales observed afterwards must not remember it
    for con in ([None] + [n for n in names if n]) if names else [cfg.get("constraint")]:
        try:
            ops.probe(dict(cfg, dtype="bf16" if (op == "conv1d" or rng.random() < 0.5) else "f16", **({"constraint": con} if names else {})), 0)
        except Exception:
            pass
    base = scalars(dict(cfg, constraint=None)) if names else scalars(cfg)
    label = json.dumps(cfg, sort_keys=True)
    if base is None or "__err__" in base:
        rep.violation(f"{op} raised without constraint: {base}", {"cfg": cfg}, key=f"error:{op}")
        return
    if not names:   # fixed-group op: one shared scale
        e = spec[(op, "__fixed__")]
        vals = {s: base[s] for s in e["fixed"] if s in base}
        rep.case((op, "fixed", label))
        if any(abs(v - base["out"]) > TOL * abs(base["out"]) for v in vals.values()):
            rep.violation(f"{op}: forward and backward scales of the fixed group differ: {vals}; cfg={label}", {"cfg": cfg, "name": "__fixed__", "scalars": vals}, key=f"fixed:{op}")
        return
    for name in names:
        e = spec[(op, name)]
        rep.case((op, name, label), nontrivial=name not in ("", "to_output_scale"))
        con = None if name == "" else name
        obs = scalars(dict(cfg, constraint=con))
        if not e["ok"]:
            raise common.MachineryError(f"spec rejects valid name {name} for {op}: {e}")
        if obs is None or "__err__" in obs:
            rep.violation(f"{op} with constraint={con!r} raised: {obs}", {"cfg": cfg, "name": name}, key=f"error:{op}:{name}")
            continue
        group = list(e["group"])
        if any(g not in base for g in group):
            continue  # a group member has no defined factor here (e.g. zero reference gradient)
        free = [base[g] for g in group]
        for g, ex in zip(group, e["expr"]):
            want = eval_expr(ex, free)
            if g not in obs or abs(obs[g] - want) > TOL * abs(want):
                rep.violation(f"{op} constraint={con!r}: scale of {g} = {obs.get(g)!r}, spec {ex} over unconstrained {dict(zip(group, free))} = {want!r}; cfg={label}",
                              {"cfg": cfg, "name": name, "slot": g, "observed": obs, "unconstrained": base}, key=f"collapse:{op}:{name}:{g}")
                break
        else:
            for s in e["outside"]:
                if s in base and (s not in obs or abs(obs[s] - base[s]) > TOL * abs(base[s])):
                    rep.violation(f"{op} constraint={con!r}: {s} gradient scale changed from {base[s]!r} to {obs.get(s)!r}; cfg={label}",
                                  {"cfg": cfg, "name": name, "slot": s, "observed": obs, "unconstrained": base}, key=f"outside:{op}:{name}:{s}")
                    break
        if do_gradcheck and con is not None and rng.random() < 0.5:
            if not gradcheck_cfg(dict(cfg, constraint=con), [g for g in group if g != "out"]):
                rep.violation(f"{op} constraint={con!r}: gradcheck fails on constrained inputs; cfg={label}", {"cfg": cfg, "name": name, "gradcheck": True}, key=f"gradcheck:{op}:{name}")


def residual_fixed_group(rep: Report, rng: random.Random, n: int) -> None:
    """The residual ops are fixed-constraint ops (spec: Tape edges): the forward weight applied at the add equals the
    backward weight applied at the split, for the residual branch and for the skip branch, for every tau."""
    import unit_scaling.functional as U

    for _ in range(n):
        tau = rng.choice([0.25, 0.5, 1.0, 3.0, 10 ** rng.uniform(-3, 3)])
        x = torch.randn(5, dtype=torch.float64, requires_grad=True)
        z = torch.zeros(5, dtype=torch.float64)
        res, skip = U.residual_split(x, tau)
        up = torch.randn(5, dtype=torch.float64)
        (g_res,) = torch.autograd.grad(res, x, up, retain_graph=True)
        (g_skip,) = torch.autograd.grad(skip, x, up)
        b_res, b_skip = ops.fit(g_res, up)[0], ops.fit(g_skip, up)[0]
        a = torch.randn(5, dtype=torch.float64)
        f_res = ops.fit(U.residual_add(a, z, tau), a)[0]
        f_skip = ops.fit(U.residual_add(z, a, tau), a)[0]
        rep.case(("residual_group", round(tau, 6)))
        if abs(f_res - b_res) > TOL * abs(b_res) or abs(f_skip - b_skip) > TOL * abs(b_skip):
            rep.violation(f"residual ops, tau={tau}: forward weights (residual {f_res:.6g}, skip {f_skip:.6g}) differ from backward weights (residual {b_res:.6g}, skip {b_skip:.6g})",
                          {"cfg": {"op": "residual", "tau": tau}, "forward": [f_res, f_skip], "backward": [b_res, b_skip]}, key="fixed:residual")
            return


def scale_elementwise_cases(rep: Report, rng: random.Random, n: int) -> None:
    """core.functional.scale_elementwise (the combinator gelu/silu are built from) on ARBITRARY element-wise functions:
    forward = f(x) * c_out, input gradient = f'(x) * up * c_in with (c_out, c_in) = the named rule applied to the two
    given scales -- expected values from TLC (kind "mean").  Reported non-gating: outside the property's list of ops."""
    from unit_scaling.core.functional import scale_elementwise

    vals = [Fraction(1, 4), Fraction(1, 3), Fraction(1, 2), Fraction(2), Fraction(3), Fraction(5, 2), Fraction(7, 5)]
    pairs = [[rng.choice(vals), rng.choice(vals)] for _ in range(n)]
    ev = common.tlc_eval("ScaledOps_Eval", "ScaledOps_Eval.cfg", [{"kind": "mean", "s": [[v.numerator, v.denominator] for v in pr]} for pr in pairs], tag="selw")
    rep.states += ev["states"]
    rep.transitions += ev["transitions"]
    fns = [("tanh", torch.tanh, (), lambda x: 1 - torch.tanh(x) ** 2), ("sin", torch.sin, (), torch.cos),
           ("mul_arg", lambda x, a: x * a, (1.5,), lambda x: torch.full_like(x, 1.5))]
    for (so, si), e in zip(pairs, ev["out"]):
        o, i = float(so), float(si)
        want = {"__default__": (o, o), None: (o, i), "to_output_scale": (o, o), "to_grad_input_scale": (i, i),
                "gmean": (float(fr(e["gpow"])) ** 0.5,) * 2, "hmean": (float(fr(e["h"])),) * 2, "amean": (float(fr(e["a"])),) * 2}
        for name, (wf, wb) in want.items():
            fname, f, extra, df = rng.choice(fns)
            sf = scale_elementwise(f, o, i) if name == "__default__" else scale_elementwise(f, o, i, constraint=name)
            x = torch.randn(rng.choice([(3,), (2, 3), ()]), dtype=torch.float64, requires_grad=True)
            up = torch.randn(x.shape, dtype=torch.float64)
            y = sf(x, *extra)
            (g,) = torch.autograd.grad(y, x, up)
            rep.case(("scale_elementwise", fname, str(name), str(so), str(si)))
            if not torch.allclose(y.detach(), f(x.detach(), *extra) * wf, rtol=1e-12, atol=0) or not torch.allclose(g, df(x.detach()) * up * wb, rtol=1e-12, atol=0):
                rep.beyond(f"scale_elementwise({fname}, {o}, {i}, constraint={name!r}): forward/backward scales are not ({wf}, {wb})")
                return
    for bad in ("bogus", "to_left_grad_scale"):
        try:
            scale_elementwise(torch.tanh, 1.0, 2.0, constraint=bad)
            rep.beyond(f"scale_elementwise accepted the constraint name {bad!r}")
        except (ValueError, TypeError):    # a known rule of the wrong arity fails with TypeError, an unknown name with ValueError
            pass


def run(rep: Report, tier: str) -> None:
    rng = random.Random(common.seed() * 41 + 10)
    torch.manual_seed(common.seed())
    torch.set_num_threads(4)
    quick = tier == "quick"
    res = common.run_tlc("Constraints_MC", "Constraints_MC.cfg", coverage=True, timeout=600, tag="conmc")
    common.tlc_must_pass(res, "Constraints_MC")
    rep.add_tlc(res)
    r4 = common.run_tlc("Constraints_MC", "Constraints_MC_4.cfg", timeout=600, tag="conmc4")
    common.tlc_must_pass(r4, "Constraints_MC (n<=4)")
    rep.add_tlc(r4, with_cov=False)
    rl = common.run_tlc("Constraints_MC", "Constraints_MC_leg.cfg", timeout=300, tag="conleg")
    common.tlc_must_fail(rl, "Constraints Legacy=swap_h_a", "Ordering")
    rep.extra["l2_refuted_deviations"] = [{"legacy": "swap_h_a", "violated": rl.violated_invariant}]
    tuples = res.printed("TUPLE")
    if len(tuples) < 300:
        raise common.MachineryError(f"Constraints_MC emitted only {len(tuples)} tuples")
    for t in tuples:
        s = [fr(v) for v in t["s"]]
        for scale in (1.0, 1e-6, 1e6) if not quick or rng.random() < 0.3 else (1.0,):
            check_means(rep, s, t, scale, "tlc_state")
        rep.case(("tuple", json.dumps(t["s"])), nontrivial=len(s) >= 2)
    vals = [Fraction(1, 4), Fraction(1, 3), Fraction(1, 2), Fraction(1), Fraction(2), Fraction(3), Fraction(4), Fraction(5, 2), Fraction(1, 5)]
    big = [[rng.choice(vals) for _ in range(rng.randint(4, 6))] for _ in range(100 if quick else 10000)]
    ev = common.tlc_eval("ScaledOps_Eval", "ScaledOps_Eval.cfg", [{"kind": "mean", "s": [[v.numerator, v.denominator] for v in s]} for s in big], tag="means")
    rep.states += ev["states"]
    rep.transitions += ev["transitions"]
    for s, e in zip(big, ev["out"]):
        check_means(rep, s, e, rng.choice([1.0, 1e-6, 1e6, 10 ** rng.uniform(-6, 6)]), "tlc_eval")
        rep.case(("tuple", json.dumps([[v.numerator, v.denominator] for v in s])))
    # ops
    opnames = ["gelu", "silu", "softmax", "matmul", "linear", "linear_readout", "conv1d", "add"]
    q = []
    for op in opnames:
        names = ["", "gmean", "hmean", "amean", "to_output_scale"] + (["to_grad_input_scale"] if op != "matmul" and op != "add" else ["to_left_grad_scale", "to_right_grad_scale"])
        q += [{"kind": "c05", "op": op, "name": n} for n in names]
    for op in ("silu_glu", "scaled_dot_product_attention", "dropout"):
        q.append({"kind": "c05", "op": op, "name": ""})
    q.append({"kind": "c05", "op": "linear", "name": "bogus_name"})
    q.append({"kind": "c05", "op": "linear", "name": "to_left_grad_scale"})
    ev2 = common.tlc_eval("ScaledOps_Eval", "ScaledOps_Eval.cfg", q, tag="c05eval")
    rep.states += ev2["states"]
    rep.transitions += ev2["transitions"]
    spec: Dict[Any, Dict[str, Any]] = {}
    for qq, e in zip(q, ev2["out"]):
        if qq["name"] in ("bogus_name",) or (qq["op"] == "linear" and qq["name"] == "to_left_grad_scale"):
            if e["ok"]:
                raise common.MachineryError(f"spec accepts invalid constraint {qq}")
            continue
        spec[(qq["op"], "__fixed__" if not e["group"] else qq["name"])] = e
    # the real code must reject what the spec rejects
    import unit_scaling.functional as U
    for bad in ("bogus_name", "to_left_grad_scale"):
        try:
            U.linear(torch.randn(2, 3), torch.randn(4, 3), None, constraint=bad)
            rep.violation(f"linear accepted constraint {bad!r} (spec: error)", {"cfg": {"op": "linear"}, "name": bad}, key=f"invalid_name:{bad}")
        except (ValueError, TypeError):
            pass
    # "an unknown constraint name raises ValueError": the valid names are the rules the spec knows (Constraints.tla), everything
    # else -- in particular every OTHER name a lookup in the library's namespace could find -- is unknown
    from unit_scaling import constraints as K

    valid = {"gmean", "hmean", "amean", "to_output_scale", "to_grad_input_scale", "to_left_grad_scale", "to_right_grad_scale"}
    unknown = sorted({n for n in dir(K) if n not in valid} | {"bogus_name", "Gmean", "gmean ", "pow", "max", "sum"})
    for name in unknown:
        rep.case(("unknown_name", name))
        for label, call in (("apply_constraint", lambda: K.apply_constraint(name, 2.0, 3.0)), ("gelu", lambda: U.gelu(torch.randn(3), constraint=name)),
                            ("matmul", lambda: U.matmul(torch.randn(2, 3), torch.randn(3, 2), constraint=name))):
            try:
                call()
                rep.violation(f"{label} accepted the unknown constraint name {name!r} (no error)", {"cfg": {"op": label}, "name": name, "unknown": True}, key=f"unknown_name_accepted:{label}")
                break
            except ValueError:
                pass
            except Exception as ex:
                rep.violation(f"{label} with the unknown constraint name {name!r} raised {type(ex).__name__} instead of ValueError", {"cfg": {"op": label}, "name": name, "unknown": True}, key=f"unknown_name_wrong_error:{label}")
                break
    residual_fixed_group(rep, rng, 10 if quick else 1000)
    scale_elementwise_cases(rep, rng, 12 if quick else 300)
    for cfg in base_cfgs(rng, 3 if quick else 250):
        check_op(rep, cfg, spec, rng, do_gradcheck=True)
    rep.traces = rep.evaluations
    rep.rule = "rule functions: every tuple of 1-3 scales over 7 rationals emitted by TLC (x 1e-6, 1, 1e6) + random tuples of 4-6 evaluated by TLC; ops: every op with a constraint x every valid name x seeded shapes; non-trivial = tuples of >= 2 scales, names other than None/to_output_scale"
    rep.sample(tuples[len(tuples) // 2])
    rep.sample({"op_constraint_expr": {f"{k[0]}/{k[1]}": v for k, v in list(spec.items())[:3]}})
    rep.assumptions += ["fitted scalars at 1e-9; gradcheck (float64, eps 1e-6) is the finite-difference witness of 'true derivative'"]


def replay(rep: Report, path: str) -> None:
    d = json.load(open(path))
    c = d["case"]
    rep.case("replay")
    rep.case(json.dumps(c, default=str)[:300])
    rep.traces = 1
    rep.sample(c)
    if "scales" in c:
        s = [fr(v) for v in c["scales"]]
        ev = common.tlc_eval("ScaledOps_Eval", "ScaledOps_Eval.cfg", [{"kind": "mean", "s": c["scales"]}], tag="means")
        rep.states += ev["states"]
        rep.transitions += ev["transitions"]
        check_means(rep, s, ev["out"][0], c.get("scale", 1.0), "replay")
        return
    cfg = c["cfg"]
    if cfg.get("op") == "residual":
        residual_fixed_group(rep, random.Random(5), 50)
        return
    names = ["", "gmean", "hmean", "amean", "to_output_scale", "to_grad_input_scale", "to_left_grad_scale", "to_right_grad_scale"]
    q = [{"kind": "c05", "op": cfg["op"], "name": n} for n in names]
    ev2 = common.tlc_eval("ScaledOps_Eval", "ScaledOps_Eval.cfg", q, tag="c05eval")
    rep.states += ev2["states"]
    rep.transitions += ev2["transitions"]
    spec = {}
    for qq, e in zip(q, ev2["out"]):
        if e["ok"]:
            spec[(qq["op"], qq["name"])] = e
        elif not e["group"] and qq["name"] == "":
            spec[(qq["op"], "__fixed__")] = e
    check_op(rep, cfg, spec, random.Random(3), do_gradcheck=bool(c.get("gradcheck")))
