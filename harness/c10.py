"""C10 -- optimizer learning rates follow the u-muP rule for every type, shape, depth.

L2: Optim_MC phase "lr": 41k (optimizer, readout, tag, shape, depth, lr?, allow?) states;
    case analysis total, errors exactly as stated, SGD/None = Adam, mirror rule.
L3 (A): every state emitted by TLC is replayed on scaled_parameters and on the
    SGD/Adam/AdamW constructors (bare list, generator, explicit group; float and
    0-dim tensor lr); large dims/depths are evaluated point-wise by Optim_Eval.
"""
from __future__ import annotations

import json
import random
from fractions import Fraction
from typing import Any, Dict, List, Optional, Tuple

import torch
from torch import nn

from . import common
from .common import Report


def make_param(tag: str, shape: List[int], depth: int, frozen: bool = False):
    """frozen: the parameter does not require a gradient when the groups are built
    (a frozen backbone, unfrozen later). The property speaks of EVERY tagged
    parameter, so the factor -- and the rejection of untagged ones -- is the same."""
    from unit_scaling.parameter import Parameter

    data = torch.zeros(*shape)
    p = nn.Parameter(data) if tag == "" else Parameter(data, tag, None if depth == 0 else depth)
    if frozen:
        p.requires_grad_(False)
    return p


def observe(case: Dict[str, Any], form: str, lrkind: str, via: str, lr_value: float, frozen: bool = False) -> Dict[str, Any]:
    """Run the real code for one case. Returns {"err": name|None, "ratio2": float|None}."""
    from unit_scaling import optim as O

    p = make_param(case["tag"], case["shape"], case["depth"], frozen)
    lr: Any = None
    if case["lrGiven"]:
        lr = lr_value if lrkind == "float" else torch.tensor(lr_value, dtype=torch.float64 if lrkind == "tensor64" else torch.float32)
    readout = None if case["readout"] == "none" else case["readout"]
    if form == "list":
        params: Any = [p]
        glr = lr
    elif form == "gen":
        params = (q for q in [p])
        glr = lr
    elif form == "group_own_lr":
        params = [dict(params=[p], lr=lr)] if lr is not None else [dict(params=[p])]
        glr = None if via == "scaled_parameters" else 123.0  # a global lr that must be overridden
    else:  # group using the global lr
        params = [dict(params=[p])]
        glr = lr
    try:
        if via == "scaled_parameters":
            f = O.lr_scale_func_adam if case["opt"] in ("adam", "adamw") else O.lr_scale_func_sgd(readout)
            groups = O.scaled_parameters(params, f, lr=glr, allow_non_unit_scaling_params=case["allow"])
        else:
            cls = {"adam": O.Adam, "adamw": O.AdamW, "sgd": O.SGD}[case["opt"]]
            kw: Dict[str, Any] = dict(allow_non_unit_scaling_params=case["allow"])
            if case["opt"] == "sgd":
                kw["readout_constraint"] = readout
            opt = cls(params, lr=glr, **kw)
            groups = opt.param_groups
    except ValueError as ex:
        return {"err": str(ex)[:80], "ratio2": None}
    if len(groups) != 1:
        return {"err": None, "ratio2": None, "bad": f"{len(groups)} groups"}
    out = groups[0]["lr"]
    same_kind = isinstance(out, torch.Tensor) == isinstance(lr, torch.Tensor)
    ratio = float(out) / lr_value
    return {"err": None, "ratio2": ratio * ratio, "same_kind": same_kind}


def observe_multi(cases: List[Dict[str, Any]], lrkind: str, via: str, lr_value: float, form: str, frozen: Optional[List[bool]] = None) -> Dict[str, Any]:
    """Several parameters in ONE call sharing one learning rate (bare list,
    generator, or one explicit group): each must get its own factor."""
    from unit_scaling import optim as O

    c0 = cases[0]
    ps = [make_param(c["tag"], c["shape"], c["depth"], bool(frozen and frozen[i])) for i, c in enumerate(cases)]
    lr: Any = lr_value if lrkind == "float" else torch.tensor(lr_value, dtype=torch.float64 if lrkind == "tensor64" else torch.float32)
    readout = None if c0["readout"] == "none" else c0["readout"]
    params: Any = ps if form == "list" else (q for q in ps) if form == "gen" else [dict(params=ps)]
    try:
        if via == "scaled_parameters":
            f = O.lr_scale_func_adam if c0["opt"] in ("adam", "adamw") else O.lr_scale_func_sgd(readout)
            groups = O.scaled_parameters(params, f, lr=lr, allow_non_unit_scaling_params=c0["allow"])
        else:
            cls = {"adam": O.Adam, "adamw": O.AdamW, "sgd": O.SGD}[c0["opt"]]
            kw: Dict[str, Any] = dict(allow_non_unit_scaling_params=c0["allow"])
            if c0["opt"] == "sgd":
                kw["readout_constraint"] = readout
            groups = cls(params, lr=lr, **kw).param_groups
    except ValueError as ex:
        return {"err": str(ex)[:80]}
    if len(groups) != len(ps) or any(len(g["params"]) != 1 or g["params"][0] is not q for g, q in zip(groups, ps)):
        return {"err": None, "bad": "groups do not list the parameters one per group in input order"}
    return {"err": None, "ratio2": [(float(g["lr"]) / lr_value) ** 2 for g in groups]}


def classify_err(msg: str) -> str:
    if "requires lr" in msg:
        return "lr_missing"
    if "Non-unit-scaling parameter" in msg:
        return "untagged"
    if "fan_in" in msg:
        return "fan_in_ndim"
    return "other:" + msg


def compare(rep: Report, case: Dict[str, Any], exp: Dict[str, Any], obs: Dict[str, Any], how: Tuple[str, ...], tol: float) -> None:
    label = f"{case['opt']}/{case['readout']} tag={case['tag'] or 'untagged'} shape={case['shape']} depth={case['depth']} lrGiven={case['lrGiven']} allow={case['allow']} via={how}"
    key_base = f"{case['opt']}:{case['readout']}:{case['tag']}:ndim{len(case['shape'])}"
    if exp["ok"]:
        if obs["err"] is not None:
            rep.violation(f"unexpected error for {label}: {obs['err']}", {"case": case, "how": how, "obs": obs, "exp": exp}, key="unexpected_error:" + key_base)
            return
        if obs.get("bad"):
            rep.violation(f"{obs['bad']} for {label}", {"case": case, "how": how, "obs": obs, "exp": exp}, key="groups:" + key_base)
            return
        e = Fraction(exp["f2"][0], exp["f2"][1])
        if abs(obs["ratio2"] - float(e)) > tol * float(e):
            rep.violation(
                f"lr factor^2 = {obs['ratio2']:.9g}, spec LrFactor2 = {e} for {label}",
                {"case": case, "how": how, "obs": obs, "exp": exp},
                key="factor:" + key_base,
            )
        if not obs.get("same_kind", True):
            rep.violation(f"lr changed kind (float<->tensor) for {label}", {"case": case, "how": how, "obs": obs, "exp": exp}, key="kind:" + key_base)
    else:
        if obs["err"] is None:
            rep.violation(f"expected error {exp['err']} but call succeeded for {label}", {"case": case, "how": how, "obs": obs, "exp": exp}, key="missing_error:" + exp["err"] + ":" + key_base)
        # which ValueError is raised first is not part of the property: any ValueError counts


FORMS = ["list", "gen", "group_own_lr", "group_global_lr"]


def gating(case: Dict[str, Any]) -> bool:
    """The property words the SGD/output-scaled rule for biases and norm gains as
    'length': only 1-D shapes are unambiguous."""
    if case["opt"] == "sgd" and case["readout"] == "to_output_scale" and case["tag"] in ("bias", "norm") and len(case["shape"]) > 1:
        return False
    return True


def replay_case(rep: Report, case: Dict[str, Any], exp: Dict[str, Any], rng: random.Random, all_forms: bool) -> None:
    if not gating(case):
        return
    combos = [(f, k, v, z) for f in FORMS for k in ("float", "tensor", "tensor64") for v in ("scaled_parameters", "class") for z in (False, True)]
    if not all_forms:
        combos = rng.sample([c for c in combos if not c[3]], 2) + rng.sample([c for c in combos if c[3]], 1)
    for (form, lrkind, via, frozen) in combos:
        if via == "class" and not case["lrGiven"]:
            continue  # the classes always have an lr (default 1e-3)
        lr_value = 10 ** rng.uniform(-8, 2)
        obs = observe(case, form, lrkind, via, lr_value, frozen)
        tol = 1e-12 if lrkind != "tensor" else 5e-7
        compare(rep, case, exp, obs, (form, lrkind, via, frozen), tol)


def replay_multi(rep: Report, pool: List[Tuple[Dict[str, Any], Dict[str, Any]]], rng: random.Random, n: int) -> None:
    """pool: (case, expectation) pairs with expectation ok; grouped by (opt, readout, allow)."""
    by: Dict[Tuple[str, str, bool], List[Tuple[Dict[str, Any], Dict[str, Any]]]] = {}
    for case, exp in pool:
        if exp["ok"] and case["lrGiven"] and gating(case):
            by.setdefault((case["opt"], case["readout"], case["allow"]), []).append((case, exp))
    keys = sorted(by)
    for _ in range(n):
        k = rng.choice(keys)
        sel = [rng.choice(by[k]) for _ in range(rng.randint(2, 5))]
        if rng.random() < 0.5:
            # same tag and shape at DIFFERENT depths in one call (a factor cached per (tag, shape) would be wrong)
            base = sel[0][0]
            twins = [(c, e) for (c, e) in by[k] if c["tag"] == base["tag"] and c["shape"] == base["shape"] and c["depth"] != base["depth"]]
            if twins:
                sel += rng.sample(twins, min(2, len(twins)))
                rng.shuffle(sel)
        lrkind = rng.choice(["float", "tensor", "tensor64"])
        via = rng.choice(["scaled_parameters", "class"])
        form = rng.choice(["list", "gen", "one_group"])
        frozen = [rng.random() < 0.3 for _ in sel]
        obs = observe_multi([c for c, _ in sel], lrkind, via, 10 ** rng.uniform(-8, 2), form, frozen)
        label = f"{k} {[ (c['tag'] or 'untagged', c['shape'], c['depth'], 'frozen' if z else 'trainable') for (c, _), z in zip(sel, frozen)]} via={(form, lrkind, via)}"
        rep.case(("multi", label))
        if obs.get("err") is not None or obs.get("bad"):
            rep.violation(f"multi-parameter call failed: {obs.get('err') or obs.get('bad')} for {label}", {"cases": [c for c, _ in sel], "how": (form, lrkind, via), "obs": obs}, key=f"multi_error:{k[0]}")
            continue
        tol = 1e-12 if lrkind != "tensor" else 5e-7
        for (c, e), r2 in zip(sel, obs["ratio2"]):
            ef = Fraction(e["f2"][0], e["f2"][1])
            if abs(r2 - float(ef)) > tol * float(ef):
                rep.violation(f"lr factor^2 = {r2:.9g}, spec LrFactor2 = {ef} for parameter {(c['tag'], c['shape'], c['depth'])} in multi-parameter call {label}",
                              {"cases": [c for c, _ in sel], "how": (form, lrkind, via), "obs": obs}, key=f"multi_factor:{k[0]}:{lrkind}")
                break


def big_cases(rng: random.Random, n: int) -> List[Dict[str, Any]]:
    out = []
    dims = [1, 2, 3, 5, 7, 16, 64, 255, 256, 1000, 1024, 4095, 4096]
    while len(out) < n:
        nd = rng.choice([1, 2, 2, 3, 3])
        shape = [rng.choice(dims) if rng.random() < 0.6 else rng.randint(1, 4096) for _ in range(nd)]
        if nd == 3:
            shape[2] = rng.choice([1, 2, 3, 5, 7, 9])
        depth = rng.choice([0, 1, 2, 3, 64, 1000, 1024, rng.randint(1, 1024)])
        tag = rng.choice(["weight", "weight", "bias", "norm", "output"])
        if nd == 3 and shape[0] * shape[1] * shape[2] > 1 << 22:
            continue
        fan = shape[0] if nd == 1 else shape[1] if nd == 2 else shape[1] * shape[2]
        if max(fan, shape[0] * shape[0]) * max(1, depth) >= 1 << 31:
            continue
        out.append({
            "kind": "lr", "opt": rng.choice(["adam", "adamw", "sgd"]), "readout": rng.choice(["none", "to_output_scale"]),
            "tag": tag, "shape": shape, "depth": depth, "lrGiven": True, "allow": False,
        })
    return out


def run(rep: Report, tier: str) -> None:
    rng = random.Random(common.seed() * 17 + 3)
    res = common.run_tlc("Optim_MC", "Optim_MC_lr.cfg", coverage=True, timeout=600, tag="optlr")
    common.tlc_must_pass(res, "Optim_MC phase lr")
    rep.add_tlc(res)
    emitted = res.printed("CASE")
    if len(emitted) < 1000:
        raise common.MachineryError(f"Optim_MC emitted only {len(emitted)} cases")
    rep.extra["cases_emitted_by_tlc"] = len(emitted)
    quick = tier == "quick"
    for rec in emitted:
        case, exp = rec["c"], rec["o"]
        case["shape"] = list(case["shape"])
        if quick and rng.random() > 0.25:
            continue
        replay_case(rep, case, exp, rng, all_forms=False if quick else (rng.random() < 0.2))
        rep.case((case["opt"], case["readout"], case["tag"], tuple(case["shape"]), case["depth"], case["lrGiven"], case["allow"]),
                 nontrivial=exp["ok"] and exp["f2"] != [1, 1] or not exp["ok"])
    rep.exhaustive = not quick
    replay_multi(rep, [(r["c"], r["o"]) for r in emitted], rng, 300 if quick else 3000)
    # beyond the exhaustive bound: point-wise evaluation by TLC
    big = big_cases(rng, 400 if quick else 4000)
    ev = common.tlc_eval("Optim_Eval", "Optim_Eval.cfg", big, tag="opteval")
    rep.states += ev["states"]
    rep.transitions += ev["transitions"]
    for case, exp in zip(big, ev["out"]):
        replay_case(rep, case, exp, rng, all_forms=False)
        rep.case(("big", case["opt"], case["readout"], case["tag"], tuple(case["shape"]), case["depth"]))
    replay_multi(rep, list(zip(big, ev["out"])), rng, 100 if quick else 1000)
    rep.traces = rep.evaluations
    rep.rule = (
        "cases = states of Optim_MC phase lr emitted by TLC (quick: 25% sample) + seeded large shapes evaluated point-wise by TLC; each replayed "
        "through scaled_parameters and the optimizer classes with bare list / generator / explicit groups, float / float32-tensor / float64-tensor lr, "
        "and the parameter trainable or frozen (requires_grad False) when the groups are built; "
        "non-trivial = expected factor != 1 or an expected error"
    )
    for rec in emitted[:: max(1, len(emitted) // 3)][:3]:
        rep.sample(rec)
    rep.sample({"big": big[0], "expect": ev["out"][0]})
    rep.assumptions += ["float(lr_out)/float(lr_in) squared compared with the spec's rational at 1e-12 (float, float64 tensor) / 5e-7 (float32 tensor)"]


def replay(rep: Report, path: str) -> None:
    d = json.load(open(path))
    c = d["case"]
    case = dict(c["case"], kind="lr")
    ev = common.tlc_eval("Optim_Eval", "Optim_Eval.cfg", [case], tag="opteval")
    rep.states += ev["states"]
    rep.transitions += ev["transitions"]
    form, lrkind, via = c["how"][:3]
    frozen = bool(c["how"][3]) if len(c["how"]) > 3 else False
    obs = observe(case, form, lrkind, via, 0.37, frozen)
    compare(rep, case, ev["out"][0], obs, (form, lrkind, via, frozen), 1e-12 if lrkind != "tensor" else 5e-7)
    rep.case("replay")
    rep.case(json.dumps(case))
    rep.traces = 1
    rep.sample({"case": case, "expect": ev["out"][0], "obs": obs})
