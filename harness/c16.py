"""C16 -- unit_scale() equals the hand conversion prescribed by the User Guide.

L2: UnitScale_MC: every graph with 2 placeholders and 3 op nodes over {mapped / unmapped / user-replaced unary ops,
    softmax, linear, add, iadd, tensor+scalar add}: the backend's passes step by step; at termination the output term
    equals the declarative recipe's term and the result executes (1.6M states). Thorough: the two pre-fix deviations
    (stale dependency sets, constraint passed positionally) are refuted, and 4-5 op graphs are explored by simulation.
L3 (B): random well-nested module graphs (1-16 ops; mapped vocabulary, unmapped ops, tensor+tensor / tensor+scalar /
    in-place adds, 0-4 nested residual blocks whose skip is an input, a residual output or a plain sum, user replacements)
    are built as real FX graphs, pushed through the real unit_scaling_backend, executed, and (input graph, result graph,
    exception) validated by UnitScale_Trace against the recipe; a module family goes through the real unit_scale()
    (TorchDynamo) incl. torch.nn wrappers, weight/bias re-initialisation and the untouched original.
"""
from __future__ import annotations

import copy
import json
import operator
import random
from typing import Any, Callable, Dict, List, Optional, Tuple

import torch
import torch.nn.functional as F
from torch import fx, nn

from . import common, fxgen
from .common import Report


def my_act(input):  # a user function the `replace` map sends to U.gelu
    return torch.tanh(input) * 0.5


def my_silu(input):  # user override of a built-in mapping
    return input * torch.sigmoid(input) * 1.0


NAME_OVERRIDE = {my_act: "my.op", my_silu: "my.silu"}


def tname(t: Any) -> str:
    return NAME_OVERRIDE.get(t) or fxgen.target_name(t)


def project(g: fx.Graph) -> List[Dict[str, Any]]:
    ids = {n.name: i + 1 for i, n in enumerate(g.nodes)}
    out = []
    for n in g.nodes:
        out.append({"id": ids[n.name], "op": {"call_function": "call", "call_method": "call", "call_module": "call"}.get(n.op, n.op),
                    "tgt": tname(n.target) if n.op != "output" else "output",
                    "args": [fxgen.enc_arg(a, ids) for a in n.args], "kw": [[k, fxgen.enc_arg(v, ids)] for k, v in n.kwargs.items()]})
    return out


class Gen:
    """Shape-consistent random graphs: every activation is (2, 4, 8)."""

    def __init__(self, rng: random.Random, use_user_map: bool):
        self.rng, self.g, self.root = rng, fx.Graph(), nn.Module()
        self.use_user = use_user_map
        self.x = self.g.placeholder("x")
        self.ids = None
        self.np = 0
        self.budget = 0

    def param(self, *shape) -> fx.Node:
        self.np += 1
        name = f"p{self.np}"
        self.root.register_parameter(name, nn.Parameter(torch.randn(*shape) * 0.5))
        return self.g.get_attr(name)

    def unary(self, h: fx.Node) -> fx.Node:
        g, r = self.g, self.rng
        kinds = ["gelu", "silu", "softmax", "dropout", "layer_norm", "linear", "linear_kwbias", "matmul", "conv1d", "sdpa", "tanh", "relu", "mul", "reshape", "slice", "scalar_add", "rms_norm",
                 "matmul_op", "torch_softmax", "torch_rms_norm"]     # other spellings of the same operations: a @ b, torch.softmax, torch.rms_norm (= nn.RMSNorm under Dynamo)
        if self.use_user:
            kinds += ["my_act", "my_act"]
        k = r.choice(kinds)
        self.budget -= 1
        if r.random() < 0.2:      # TENSOR operands passed by keyword (TorchDynamo keeps the user's call style in the graph)
            if k == "gelu":
                return g.call_function(F.gelu, (), {"input": h})
            if k == "silu":
                return g.call_function(F.silu, (), {"input": h})
            if k == "softmax":
                return g.call_function(F.softmax, (), {"input": h, "dim": -1})
            if k in ("linear", "linear_kwbias"):
                return g.call_function(F.linear, (), {"input": h, "weight": self.param(8, 8), "bias": self.param(8)})
            if k == "sdpa":
                return g.call_function(F.scaled_dot_product_attention, (), {"query": h, "key": h, "value": h})
            if k == "layer_norm":
                return g.call_function(F.layer_norm, (), {"input": h, "normalized_shape": (8,)})
            if k == "tanh":
                return g.call_function(torch.tanh, (), {"input": h})
        if k == "matmul_op":
            return g.call_function(operator.matmul, (h, self.param(8, 8)))
        if k == "torch_softmax":
            return g.call_function(torch.softmax, (h, -1))
        if k == "torch_rms_norm":
            return g.call_function(torch.rms_norm, (h, (8,)))
        if k == "gelu":
            return g.call_function(F.gelu, (h,))
        if k == "silu":
            return g.call_function(F.silu, (h,))
        if k == "softmax":
            return g.call_function(F.softmax, (h,), {"dim": -1})
        if k == "dropout":
            return g.call_function(F.dropout, (h,), {"p": 0.0})
        if k == "layer_norm":
            return g.call_function(F.layer_norm, (h, (8,)))
        if k == "rms_norm":
            return g.call_function(F.rms_norm, (h, (8,)))
        if k == "linear":
            return g.call_function(F.linear, (h, self.param(8, 8), self.param(8)) if r.random() < 0.5 else (h, self.param(8, 8)))
        if k == "linear_kwbias":
            return g.call_function(F.linear, (h, self.param(8, 8)), {"bias": self.param(8)})
        if k == "matmul":
            return g.call_function(torch.matmul, (h, self.param(8, 8)))
        if k == "conv1d":     # the styles torch.nn.Conv1d and users produce: bare, keyword ints, positional 1-tuples (nn.Conv1d), padding
            st = r.choice(["bare", "kw_int", "tuples", "tuples_pad"])
            if st == "bare":
                return g.call_function(F.conv1d, (h, self.param(4, 4, 1)))
            if st == "kw_int":
                return g.call_function(F.conv1d, (h, self.param(4, 4, 1)), {"stride": 1, "padding": 0})
            if st == "tuples":
                return g.call_function(F.conv1d, (h, self.param(4, 4, 1), None, (1,), (0,), (1,), 1))
            return g.call_function(F.conv1d, (h, self.param(4, 4, 3), self.param(4), (1,), (1,), (1,), 1))
        if k == "sdpa":
            return g.call_function(F.scaled_dot_product_attention, (h, h, h))
        if k == "tanh":
            return g.call_function(torch.tanh, (h,))
        if k == "relu":
            return g.call_function(torch.relu, (h,))
        if k == "mul":
            return g.call_function(operator.mul, (h, 1.5))
        if k == "reshape":
            return g.call_method("reshape", (h, 2, 4, 8))
        if k == "slice":
            return g.call_function(operator.getitem, (h, (slice(None), slice(None), slice(None))))
        if k == "scalar_add":
            return g.call_function(operator.add, (h, 2.0)) if r.random() < 0.7 else g.call_function(operator.add, (0.5, h))
        return g.call_function(my_act, (h,))

    def chain(self, h: fx.Node, depth: int) -> fx.Node:
        """a run of unary ops and (nested) residual blocks"""
        n = self.rng.randint(1, 3)
        for _ in range(n):
            if self.budget <= 0:
                break
            if depth < 2 and self.rng.random() < 0.35:
                h = self.residual(h, depth + 1)
            else:
                h = self.unary(h)
        return h

    def residual(self, skip: fx.Node, depth: int) -> fx.Node:
        b = self.unary(skip)
        b = self.chain(b, depth) if self.rng.random() < 0.6 and self.budget > 0 else b
        # every way of writing the addition: a + b (both orders), a += b, torch.add(a, b), a.add(b), a.add_(b)
        form = self.rng.choice(["add_sb", "add_bs", "iadd_bs", "tadd_sb", "tadd_bs", "madd_bs", "madd__bs", "madd_sb"])
        self.budget -= 1
        if form == "add_sb":
            return self.g.call_function(operator.add, (skip, b))
        if form == "add_bs":
            return self.g.call_function(operator.add, (b, skip))
        if form == "tadd_sb":
            return self.g.call_function(torch.add, (skip, b))
        if form == "tadd_bs":
            return self.g.call_function(torch.add, (b, skip))
        if form == "madd_bs":
            return self.g.call_method("add", (b, skip))
        if form == "madd_sb":
            return self.g.call_method("add", (skip, b))
        if form == "madd__bs":
            return self.g.call_method("add_", (b, skip))
        return self.g.call_function(operator.iadd, (b, skip))

    def build(self, n_ops: int) -> Tuple[fx.GraphModule, List[torch.Tensor]]:
        r, g = self.rng, self.g
        self.budget = n_ops
        start = r.choice(["input", "plain_sum", "embedding_sum", "unary", "towers", "towers"])
        ins: List[Any] = []
        if start == "input":
            h = self.x
        elif start == "unary":
            h = self.unary(self.x)
        elif start == "plain_sum":   # skip tensor produced by a plain add of two independent tensors
            y = g.placeholder("y")
            a_, b_ = self.unary(self.x), g.call_function(torch.tanh, (y,))
            pf = r.choice(["op", "torch", "method"])
            h = g.call_function(operator.add, (a_, b_)) if pf == "op" else (g.call_function(torch.add, (a_, b_)) if pf == "torch" else g.call_method("add", (a_, b_)))
            self.budget -= 2
        elif start == "towers":      # residual blocks on PARALLEL branches (a DAG, not a chain), combined afterwards
            y = g.placeholder("y")
            ta = self.residual(self.unary(self.x) if r.random() < 0.5 else self.x, 1)
            tb = self.residual(y, 1)
            if r.random() < 0.3:
                tb = self.unary(tb)
            h = g.call_function(operator.mul, (ta, tb)) if r.random() < 0.6 else g.call_function(torch.matmul, (ta, g.call_method("transpose", (tb, -1, -2))))
            if h.target is torch.matmul:
                h = g.call_function(torch.matmul, (h, ta))    # back to (2, 4, 8)
            if r.random() < 0.7:
                self.budget = 0              # no residual after the combination: the towers' adds are the last ones
        else:
            self.ids = g.placeholder("ids")
            tok = g.call_function(F.embedding, (self.ids, self.param(10, 8)))
            pos = self.param(4, 8)
            h = g.call_function(operator.add, (tok, pos))
            # keep x alive: fold it into the trunk through a plain add as well
            h = g.call_function(operator.add, (h, g.call_function(operator.mul, (self.x, 0.5))))
            self.budget -= 3
        while self.budget > 0:
            if r.random() < 0.45:
                h = self.residual(h, 1)
            else:
                h = self.unary(h)
        tail = r.choice(["none", "readout", "mse", "plain_add_tail", "ce"])
        if tail == "readout":
            h = g.call_function(F.linear, (h, self.param(6, 8)))
        elif tail == "mse":
            h = g.call_function(F.mse_loss, (h, self.param(2, 4, 8)))
        elif tail == "plain_add_tail":     # a plain add AFTER the last residual
            h = g.call_function(operator.add, (g.call_function(F.gelu, (h,)), self.param(8)))
        elif tail == "ce":
            logits = g.call_method("reshape", (g.call_function(F.linear, (h, self.param(5, 8))), 8, 5))
            tgt = g.placeholder("tgt")
            h = g.call_function(F.cross_entropy, (logits, tgt))
        g.output(h)
        g.lint()
        gm = fx.GraphModule(self.root, g)
        gen = torch.Generator().manual_seed(r.randrange(1 << 30))
        feed = []
        for n in g.nodes:
            if n.op == "placeholder":
                if n.name == "ids":
                    feed.append(torch.randint(0, 10, (2, 4), generator=gen))
                elif n.name == "tgt":
                    feed.append(torch.randint(0, 5, (8,), generator=gen))
                else:
                    feed.append(torch.randn(2, 4, 8, generator=gen).requires_grad_())
        return gm, feed


def trace_for(gm: fx.GraphModule, feed: List[torch.Tensor], replace: Dict[Callable, Callable], umap: List[List[str]]) -> Dict[str, Any]:
    from unit_scaling.transforms._unit_scale import unit_scaling_backend

    g_in = project(gm.graph)
    err, out_abs, ran = "", [], False
    try:
        out = unit_scaling_backend(replace)(gm, feed)
        out_abs = project(out.graph)
        try:
            y = out(*feed)
            y = y[0] if isinstance(y, tuple) else y
            if y.requires_grad:
                y.sum().backward()
            ran = True
        except Exception as ex:
            ran = False
            err_run = f"{type(ex).__name__}: {str(ex)[:120]}"
            return {"g": g_in, "umap": umap, "out": out_abs, "err": "", "ran": False, "run_error": err_run}
    except Exception as ex:
        err = f"{type(ex).__name__}: {str(ex)[:160]}"
    return {"g": g_in, "umap": umap, "out": out_abs, "err": err, "ran": ran}


# ---- the TorchDynamo path -------------------------------------------------
class Block(nn.Module):
    def __init__(self, kind: int):
        super().__init__()
        self.kind = kind
        self.ln = nn.LayerNorm(8)
        self.fc1 = nn.Linear(8, 16)
        self.act = nn.GELU()
        self.fc2 = nn.Linear(16, 8)
        self.sm = nn.Softmax(dim=-1)
        self.conv = nn.Conv1d(4, 4, 3, padding=1)
        self.rms = nn.RMSNorm(8)

    def forward(self, x):
        if self.kind % 5 in (3, 4):
            pass
        elif self.kind % 3 == 0:
            return x + self.fc2(self.act(self.fc1(self.ln(x))))
        elif self.kind % 3 == 1:
            return self.fc2(self.sm(self.fc1(x))) + x        # softmax on the branch -> tau 0.01
        if self.kind % 5 == 3:
            h = torch.softmax(self.rms(x) @ self.fc1.weight.t(), -1)          # a @ b, torch.softmax, nn.RMSNorm (traced as torch.rms_norm)
            return torch.add(x, self.fc2(h))                                   # function form of the residual add (softmax on the branch)
        if self.kind % 5 == 4:
            return self.conv(x).add(x)                                        # method form; nn.Conv1d passes 1-tuples
        h = self.fc2(self.act(self.fc1(x)))
        h += x                                               # in-place residual add
        return h


class Net(nn.Module):
    def __init__(self, variant: int):
        super().__init__()
        self.variant = variant
        self.emb = nn.Embedding(10, 8)
        self.pos = nn.Parameter(torch.randn(4, 8))
        self.blocks = nn.ModuleList([Block(variant + i) for i in range(1 + variant % 2)])
        self.head = nn.Linear(8, 5)

    def forward(self, ids):
        h = self.emb(ids) + self.pos          # skip tensor produced by a plain sum
        for b in self.blocks:
            h = b(h)
        out = self.head(h)
        if self.variant % 2 == 1:
            out = F.gelu(out) + 1.0           # scalar add after the last residual
        return out


def dynamo_traces(rep: Report, rng: random.Random, variants: List[int]) -> List[Dict[str, Any]]:
    from unit_scaling.transforms import unit_scale

    traces = []
    for v in variants:
        torch.manual_seed(v)
        net = Net(v)
        # a TRAINED source model: every parameter that is not a Linear / Embedding one has left its initial value (LayerNorm shift
        # and gain, RMSNorm gain, conv weight and bias, the positional table) -- unit_scale must carry these over untouched
        reinit = {f"{n}.{pn}" for n, m_ in net.named_modules() if isinstance(m_, (nn.Linear, nn.Embedding)) for pn, _ in m_.named_parameters(recurse=False)}
        with torch.no_grad():
            for k, p_ in net.named_parameters():
                if k not in reinit:
                    p_.add_(torch.randn(p_.shape) * 0.5)
        orig_state = {k: t.clone() for k, t in net.state_dict().items()}
        us = unit_scale(net)
        seen: List[Dict[str, Any]] = []
        inner = us.backends[0]

        def spy(gm, example_inputs, inner=inner, seen=seen):
            g_in = project(gm.graph)
            try:
                out = inner(gm, example_inputs)
                seen.append({"g": g_in, "umap": [], "out": project(out.graph), "err": "", "ran": True})
                return out
            except Exception as ex:
                seen.append({"g": g_in, "umap": [], "out": [], "err": f"{type(ex).__name__}: {str(ex)[:160]}", "ran": False})
                raise

        us.backends[0] = spy
        ids = torch.randint(0, 10, (2, 4))
        ran_err = ""
        try:
            y = us(ids)
            y.sum().backward()
        except Exception as ex:
            ran_err = f"{type(ex).__name__}: {str(ex)[:160]}"
        rep.case(("dynamo", v))
        if ran_err and not any(t["err"] for t in seen):
            rep.violation(f"unit_scale(Net({v})) raised when called: {ran_err}", {"variant": v, "error": ran_err}, key="dynamo_call_raised")
        for t in seen:
            t["variant"] = v
            t["ran"] = t["ran"] and not ran_err
        traces += seen
        # weights re-initialised in the copy, original untouched
        for name, mod in us.named_modules():
            if isinstance(mod, (nn.Linear, nn.Embedding)):
                sd = float(mod.weight.detach().std())
                if abs(sd - 1.0) > 1e-4:
                    rep.violation(f"unit_scale: {name}.weight std = {sd} (expected 1)", {"variant": v, "module": name, "std": sd}, key="reinit_weight")
                if getattr(mod, "bias", None) is not None and float(mod.bias.detach().abs().max()) != 0.0:
                    rep.violation(f"unit_scale: {name}.bias not zero", {"variant": v, "module": name}, key="reinit_bias")
        for k, t in net.state_dict().items():
            if not torch.equal(t, orig_state[k]):
                rep.violation(f"unit_scale modified the original module's {k}", {"variant": v, "tensor": k}, key="original_modified")
        us_state = us.state_dict()
        for k, t in orig_state.items():
            if k not in reinit and (k not in us_state or not torch.equal(us_state[k], t)):
                rep.violation(f"unit_scale changed {k} in the returned copy (only Linear / Embedding parameters are re-initialised; everything else is carried over)",
                              {"variant": v, "tensor": k}, key="other_parameter_changed")
    return traces


def graph_case(case_seed: int) -> Dict[str, Any]:
    """One self-contained random graph through the real backend; the case seed is recorded for replays."""
    import unit_scaling.functional as U

    rng = random.Random(case_seed)
    use_user = rng.random() < 0.35
    gen = Gen(rng, use_user)
    gm, feed = gen.build(rng.randint(1, 16))
    replace: Dict[Callable, Callable] = {}
    umap: List[List[str]] = []
    if use_user:
        replace[my_act] = U.gelu
        umap.append(["my.op", "U.gelu"])
        if rng.random() < 0.5:
            replace[F.silu] = my_silu
            umap.append(["F.silu", "my.silu"])
    t = trace_for(gm, feed, replace, umap)
    t["code"] = gm.code
    t["case_seed"] = case_seed
    return t


def judge(rep: Report, traces: List[Dict[str, Any]]) -> None:
    payload = [{k: t[k] for k in ("g", "umap", "out", "err", "ran")} for t in traces]
    B = 2000
    for i in range(0, len(payload), B):
        out = common.validate_traces_parallel("UnitScale_Trace", "UnitScale_Trace.cfg", payload[i : i + B], chunks=12 if len(payload) > 24 else 1, timeout=2400, tag="ustr", heap="3g")
        rep.add_trace_result(out)
        for (l, clause) in out["fails"]:
            t = traces[i + l - 1]
            if clause.startswith("harness_"):
                raise common.MachineryError(f"UnitScale_Trace: {clause} for\n{t.get('code', '')}")
            rep.violation(f"unit_scaling_backend: {clause}{' -- ' + t['err'] if t['err'] else ''}{' -- ' + t.get('run_error', '') if t.get('run_error') else ''}; input targets={[n['tgt'] for n in t['g']]}; result targets={[n['tgt'] for n in t['out']]}",
                          {k: t[k] for k in ("g", "umap", "out", "err", "ran")} | {"code": t.get("code", ""), "case_seed": t.get("case_seed"), "variant": t.get("variant")}, key=f"{clause}")


def run(rep: Report, tier: str) -> None:
    import unit_scaling.functional as U

    rng = random.Random(common.seed() * 59 + 16)
    torch.manual_seed(common.seed())
    torch.set_num_threads(2)
    quick = tier == "quick"
    res = common.run_tlc("UnitScale_MC", "UnitScale_MC.cfg", coverage=True, timeout=1800, tag="usmc")
    common.tlc_must_pass(res, "UnitScale_MC (K=3)")
    rep.add_tlc(res)
    if not quick:
        for leg in ("stale_deps", "add_constraint_positional", "torch_add_mapped_first", "fewer_spellings"):
            r = common.run_tlc("UnitScale_MC", f"UnitScale_MC_{leg}.cfg", timeout=900, tag="usleg")
            common.tlc_must_fail(r, f"UnitScale Legacy={leg}", "AlgoRefinesRecipe")
            rep.extra.setdefault("l2_refuted_deviations", []).append({"legacy": leg, "violated": r.violated_invariant})
        rs = common.run_tlc("UnitScale_MC", "UnitScale_MC_5.cfg", timeout=1500, tag="ussim", simulate="num=20000", depth=60)
        if rs.violated_invariant:
            raise common.MachineryError(f"UnitScale_MC simulation (5 ops) refuted {rs.violated_invariant}")
        rep.add_tlc(rs, with_cov=False)
    # the built-in map the spec assumes must be the library's (by name)
    lib = sorted(fxgen.target_name(k) for k in U.torch_map)
    traces: List[Dict[str, Any]] = []
    for i in range(120 if quick else 1500):
        t = graph_case(rng.randrange(1 << 30))
        traces.append(t)
        rep.case(("graph", i), nontrivial=sum(1 for n in t["g"] if n["tgt"] in ("op.add", "op.iadd")) >= 1)
    traces += dynamo_traces(rep, rng, [0, 1, 2, 3, 4] if quick else list(range(10)))
    judge(rep, traces)
    rep.extra["library_torch_map"] = lib
    rep.rule = "random well-nested graphs of 1-16 ops (0-4 nested residual blocks; skip = input / residual output / plain sum; plain adds incl. after the last residual; scalar and in-place adds; user replacements in 35%) through the real backend + a module family through unit_scale()/TorchDynamo; non-trivial = graphs with at least one add"
    if traces:
        t = traces[len(traces) // 3]
        rep.sample({"input_targets": [n["tgt"] for n in t["g"]], "result_targets": [n["tgt"] for n in t["out"]], "umap": t["umap"]})
    rep.assumptions += ["target names by fxgen.target_name; result compared by the term of its output node (node ids abstracted)", "the family predicate WellNested /\\ AllLive of the spec (graphs outside it are a harness error)"]


def replay(rep: Report, path: str) -> None:
    """Graph cases are re-created from their case seed; TorchDynamo cases from their Net variant."""
    d = json.load(open(path))
    c = d["case"]
    rep.case("replay")
    rep.case(json.dumps({"case_seed": c.get("case_seed"), "variant": c.get("variant")}))
    rep.sample({"input_targets": [n["tgt"] for n in c.get("g", [])], "case_seed": c.get("case_seed"), "variant": c.get("variant")})
    torch.set_num_threads(2)
    if c.get("case_seed") is not None:
        judge(rep, [graph_case(c["case_seed"])])
    elif c.get("variant") is not None:
        judge(rep, dynamo_traces(rep, random.Random(1), [int(c["variant"])]))
    else:
        run(rep, "quick")
