"""C09 -- u-muP parameter tags survive any history of copies, pickling, transforms.

L2: Param.tla, all histories of length <= 4 x 4 tags x 3 depths (TLC, exhaustive),
    and Legacy={"copy_drops_hooks"} must be refuted (the pre-fix algorithm).
L3 (B): every history is replayed on real objects; the projected abstract
    state after each operation is validated by Param_Trace (step-by-step
    against Apply + the C09 invariants on the observations).
"""
from __future__ import annotations

import copy
import io
import itertools
import json
import multiprocessing as mp
import pickle
import random
from typing import Any, Dict, List, Tuple

import torch
from torch import nn

from . import common
from .common import Report

OPS = ["DeepCopyParam", "DeepCopyModule", "PickleParam", "PickleModule", "SaveLoadParam", "SaveLoadModule",
       "ToF64", "Half", "LoadStateDict", "ToggleGrad", "Transform"]
TYPES = ["weight", "bias", "norm", "output"]
DEPTHS = [0, 1, 7]


class Holder(nn.Module):
    """A module holding one unit-scaling parameter."""

    def __init__(self, typ: str, depth: int):
        super().__init__()
        from unit_scaling.parameter import Parameter

        g = torch.Generator().manual_seed(1234)
        # values not representable in fp16, so precision loss is observable
        data = torch.randn(3, 4, generator=g) * (1 + 2.0 ** -14)
        self.w = Parameter(data, typ, None if depth == 0 else depth)

    def forward(self, x):  # pragma: no cover - never traced here
        return x @ self.w.t()


def _identity_backend(gm, example_inputs):
    return gm


def param_abs(p: Any, orig32: torch.Tensor, orig_lr: Any) -> Dict[str, Any]:
    from unit_scaling.optim import lr_scale_func_adam, scaled_parameters
    from unit_scaling.parameter import has_parameter_data

    tags = bool(has_parameter_data(p))
    d = getattr(p, "mup_scaling_depth", None)
    dt = {torch.float32: "f32", torch.float64: "f64", torch.float16: "f16"}.get(p.dtype, str(p.dtype))
    pv = p.detach().to(torch.float64)
    if torch.equal(pv, orig32.to(torch.float64)):
        val = "exact"
    elif torch.equal(pv, orig32.half().to(torch.float64)):
        val = "f16"
    else:
        val = "other"
    acc, lrsame = False, False
    try:
        g = scaled_parameters([p], lr_scale_func_adam, lr=1.0)
        acc = True
        lrsame = abs(float(g[0]["lr"]) - orig_lr) <= 1e-12 * abs(orig_lr)
        # the same through the optimizer classes with a TENSOR learning rate (a float32 cell, whatever dtype the parameter's
        # history left it in): a value that float16 cannot hold (0.3), and a tiny one that float16 flushes to zero (2e-8)
        from unit_scaling.optim import AdamW

        for v in (0.3, 2e-8):
            t = torch.tensor(v, dtype=torch.float32)
            got = float(AdamW([p], lr=t, weight_decay=0.01).param_groups[0]["lr"])
            lrsame = lrsame and abs(got - float(t) * orig_lr) <= 1e-6 * float(t) * abs(orig_lr)
    except ValueError:
        pass
    except Exception:       # e.g. ZeroDivisionError when the learning rate was flushed to zero: the optimizer does not accept it
        acc = False
    return {
        "tags": tags,
        "typ": getattr(p, "mup_type", None) if tags else "none",
        "depth": (d if isinstance(d, int) else 0) if tags else -1,
        "dc": "__deepcopy__" in p.__dict__,
        "rx": "__reduce_ex__" in p.__dict__,
        "isParam": isinstance(p, nn.Parameter),
        "rg": bool(p.requires_grad),
        "dtype": dt,
        "val": val,
        "acc": acc,
        "lrsame": lrsame,
    }


def apply_op(m: nn.Module, op: str, orig_state: Dict[str, torch.Tensor]) -> nn.Module:
    from unit_scaling.transforms.utils import apply_transform

    if op == "DeepCopyParam":
        m._parameters["w"] = copy.deepcopy(m.w)
    elif op == "DeepCopyModule":
        m = copy.deepcopy(m)
    elif op == "PickleParam":
        m._parameters["w"] = pickle.loads(pickle.dumps(m.w))
    elif op == "PickleModule":
        m = pickle.loads(pickle.dumps(m))
    elif op == "SaveLoadParam":
        b = io.BytesIO()
        torch.save(m.w, b)
        b.seek(0)
        m._parameters["w"] = torch.load(b, weights_only=False)
    elif op == "SaveLoadModule":
        b = io.BytesIO()
        torch.save(m, b)
        b.seek(0)
        m = torch.load(b, weights_only=False)
    elif op == "ToF64":
        m = m.to(torch.float64)
    elif op == "Half":
        m = m.half()
    elif op == "LoadStateDict":
        m.load_state_dict(orig_state)
    elif op == "ToggleGrad":
        m.w.requires_grad_(not m.w.requires_grad)
    elif op.startswith("Transform"):
        m = apply_library_transform(m, op.split(":")[1] if ":" in op else "identity")
    else:
        raise ValueError(op)
    return m


# "apply a library transform": every public transform of unit_scaling.transforms (all are lazy: they deep-copy the module
# and install a new forward; nothing is traced until the module is called), plus apply_transform with a no-op backend
TRANSFORMS = ["identity", "simulate_fp8", "simulate_format", "unit_scale", "track_scales", "compile"]


FINAL_ONLY = ("track_scales", "compile")  # "should always be the final transform in a chain" / "must still come last"


def apply_library_transform(m: nn.Module, which: str) -> nn.Module:
    from unit_scaling import transforms as T
    from unit_scaling.formats import FPFormat
    from unit_scaling.transforms.utils import apply_transform

    if which == "identity":
        return apply_transform(m, _identity_backend)
    if which == "simulate_fp8":
        return T.simulate_fp8(m)
    if which == "simulate_format":
        return T.simulate_format(m, FPFormat(4, 3), FPFormat(5, 2))
    if which == "unit_scale":
        return T.unit_scale(m)
    if which == "track_scales":
        return T.track_scales(m)
    if which == "compile":
        return T.compile(m)
    raise ValueError(which)


def with_variants(typ: str, depth: int, ops: Tuple[str, ...]) -> Tuple[str, ...]:
    """Every 'Transform' of a history becomes one named library transform, chosen by a fixed hash of the history (so a
    replay applies the same one)."""
    import zlib

    out = []
    last = max([i for i, o in enumerate(ops) if o == "Transform"], default=-1)
    for i, o in enumerate(ops):
        if o == "Transform":
            # track_scales and compile are documented to be the final transform of a chain: only the last Transform of a history may be one
            pool = TRANSFORMS if i == last else [t for t in TRANSFORMS if t not in FINAL_ONLY]
            o = "Transform:" + pool[zlib.crc32(repr((typ, depth, ops, i)).encode()) % len(pool)]
        out.append(o)
    return tuple(out)


def spec_ops(ops: Any) -> List[str]:
    return [o.split(":")[0] for o in ops]


def applicable(ops: Tuple[str, ...]) -> bool:
    """A transformed module holds a local closure (its new forward) and cannot be
    pickled; Param.tla disables module pickling after a Transform (named
    deviation 'module pickling needs a picklable forward'), so such histories
    are not behaviours of the spec."""
    seen_t = False
    for o in ops:
        if o in ("PickleModule", "SaveLoadModule") and seen_t:
            return False
        if o.startswith("Transform"):
            seen_t = True
    return True


def replay_history(args: Tuple[str, int, Tuple[str, ...]]) -> Dict[str, Any]:
    typ, depth, ops = args
    torch.set_num_threads(1)
    m = Holder(typ, depth)
    orig32 = m.w.detach().clone()
    orig_state = {k: v.clone() for k, v in m.state_dict().items()}
    from unit_scaling.optim import lr_scale_func_adam, scaled_parameters

    orig_lr = float(scaled_parameters([m.w], lr_scale_func_adam, lr=1.0)[0]["lr"])
    obs = [param_abs(m.w, orig32, orig_lr)]
    err = None
    for op in ops:
        try:
            m = apply_op(m, op, orig_state)
        except Exception as ex:  # an operation of the quantifier must not raise
            err = f"{op}: {type(ex).__name__}: {ex}"
            break
        obs.append(param_abs(m.w, orig32, orig_lr))
    return {"t": typ, "d": depth, "ops": list(ops[: len(obs) - 1]) if err else list(ops), "obs": obs, "err": err, "full_ops": list(ops)}


def histories(maxlen: int):
    for n in range(0, maxlen + 1):
        for ops in itertools.product(OPS, repeat=n):
            if applicable(ops):
                yield ops


def l2(rep: Report, tier: str) -> None:
    res = common.run_tlc("Param", "Param_MC.cfg", coverage=True, timeout=600, tag="param")
    common.tlc_must_pass(res, "Param_MC")
    rep.add_tlc(res)
    rep.extra["l2"] = {"histories_states": res.distinct, "maxlen": 4}
    ind = common.run_tlc("Param", "Param_Ind.cfg", timeout=300, tag="paramind")
    common.tlc_must_pass(ind, "Param inductive invariant (unbounded histories)")
    rep.add_tlc(ind, with_cov=False)
    indl = common.run_tlc("Param", "Param_Ind_legacy.cfg", timeout=300, tag="paramindleg")
    common.tlc_must_fail(indl, "Param inductive invariant with Legacy=copy_drops_hooks", "IndInv")
    rep.extra["inductive_invariant"] = {"invariant": "TypeOK /\\ TagsSurvive /\\ HooksInstalled", "initial_states": 144, "holds": True, "refuted_with_legacy": True}
    res = common.run_tlc("Param", "Param_MC_legacy.cfg", timeout=300, tag="paramleg")
    common.tlc_must_fail(res, "Param Legacy=copy_drops_hooks", "TagsSurvive")
    rep.extra["l2_refuted_deviations"] = [{"legacy": "copy_drops_hooks", "violated": res.violated_invariant, "counterexample_depth": res.depth}]


def run(rep: Report, tier: str) -> None:
    rng = random.Random(common.seed() * 31 + 9)
    l2(rep, tier)
    jobs: List[Tuple[str, int, Tuple[str, ...]]] = []
    for ops in histories(4):
        combos = [(t, d) for t in TYPES for d in DEPTHS]
        if tier == "quick":
            if len(ops) <= 2:
                sel = combos
            elif len(ops) == 3:
                sel = [combos[rng.randrange(len(combos))] for _ in range(2)]
            else:
                sel = [combos[rng.randrange(len(combos))]] if rng.random() < 0.10 else []
        else:
            sel = combos
        for (t, d) in sel:
            jobs.append((t, d, with_variants(t, d, ops)))
    # every library transform by name, on a trainable and on a frozen parameter, alone and followed by another transform / a copy
    for v in TRANSFORMS:
        for pre in ((), ("ToggleGrad",), ("Half",)):
            for post in ((), ("DeepCopyModule",), ("Transform:" + TRANSFORMS[(TRANSFORMS.index(v) + 1) % len(TRANSFORMS)],)):
                if v in FINAL_ONLY and post and post[0].startswith("Transform"):
                    continue
                for (t, d) in ([("weight", 7), ("output", 0)] if tier == "quick" else [(t, d) for t in TYPES for d in DEPTHS]):
                    jobs.append((t, d, pre + ("Transform:" + v,) + post))
    rep.exhaustive = tier != "quick"
    # histories the specification does NOT contain (Param.tla `Enabled`): pickling / torch.save of a module AFTER a library transform.
    # They are in the property's quantifier; on the pinned tree they raise.  Judged here explicitly (known finding), not left out.
    for ops in (("Transform", "PickleModule"), ("Transform", "SaveLoadModule"), ("DeepCopyModule", "Transform", "PickleModule")):
        r_ = replay_history(("weight", 1, ops))
        rep.case(("pickle_after_transform", ops))
        if r_["err"]:
            rep.violation(f"history {list(ops)}: {r_['err'][:160]} -- the tags cannot survive an operation that raises", {"history": list(ops), "err": r_["err"][:200]}, key="kf:pickle_after_transform")
        elif not r_["obs"][-1].get("tags", False):
            rep.violation(f"history {list(ops)}: tags lost", {"history": list(ops)}, key="tags_lost:pickle_after_transform")
    with mp.get_context("fork").Pool(14) as pool:
        results = pool.map(replay_history, jobs, chunksize=64)
    traces = []
    for r in results:
        rep.case((r["t"], r["d"], tuple(r["full_ops"])), nontrivial=len(r["full_ops"]) >= 2)
        if r["err"]:
            rep.violation(f"operation raised in history {r['full_ops']} (type={r['t']}, depth={r['d']}): {r['err']}", r, key=f"raise:{r['err'].split(':')[0]}")
        traces.append({"t": r["t"], "d": r["d"], "ops": spec_ops(r["ops"]), "named_ops": r["ops"], "full_ops": r["full_ops"], "obs": r["obs"]})
    B = 60000
    for i in range(0, len(traces), B):
        batch = traces[i : i + B]
        out = common.validate_traces("Param_Trace", "Param_Trace.cfg", batch, timeout=1200, tag="ptr")
        rep.add_trace_result(out)
        for (l, k, clause) in out["fails"]:
            tr = batch[l - 1]
            rep.violation(
                f"history {tr['named_ops']} (type={tr['t']}, depth={tr['d']}): {clause} after {k-1} operation(s); observed {tr['obs'][k-1]}",
                tr,
                key=f"{clause}:{'/'.join(tr['ops'][:k-1][-2:])}",
            )
    rep.rule = (
        "all histories over the 11 operations up to length 4 (module pickling after a Transform excluded: not picklable) x 4 tags x 3 depths; each Transform is one of "
        "the six library transforms (apply_transform with a no-op backend, simulate_fp8, simulate_format, unit_scale, track_scales, compile), chosen by a hash of the history, "
        "plus every named transform on a trainable / frozen / half-precision parameter, alone and followed by a copy or another transform; "
        "quick: all of length<=2, two (tag,depth) combos per length-3 history, 10% of length-4 histories; thorough: all. "
        "non-trivial = history length >= 2"
    )
    for tr in traces[:: max(1, len(traces) // 4)][:4]:
        rep.sample({"t": tr["t"], "d": tr["d"], "ops": tr["ops"], "last_obs": tr["obs"][-1]})
    rep.assumptions += ["projection param_abs reads p.__dict__, has_parameter_data, scaled_parameters(lr_scale_func_adam)"]


def replay(rep: Report, path: str) -> None:
    d = json.load(open(path))
    c = d["case"]
    ops = tuple(c.get("full_ops") or c["ops"])
    r = replay_history((c["t"], c["d"], ops))
    rep.case((c["t"], c["d"], ops))
    rep.case("replay")
    rep.sample(r)
    if r["err"]:
        rep.violation(f"operation raised: {r['err']}", r, key=f"raise:{r['err'].split(':')[0]}")
    out = common.validate_traces("Param_Trace", "Param_Trace.cfg", [{"t": r["t"], "d": r["d"], "ops": spec_ops(r["ops"]), "obs": r["obs"]}], tag="ptr")
    rep.add_trace_result(out)
    for (l, k, clause) in out["fails"]:
        rep.violation(f"history {r['ops']}: {clause} after {k-1} operation(s)", r, key=f"{clause}:{'/'.join(r['ops'][:k-1][-2:])}")
