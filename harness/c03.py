"""C03 -- exact unit scale of the (bi)linear ops at initialisation.

L2: ScaledOps_MC: for every pinned op / slot / small shape: Scale2 * Count = 1 (documented exceptions explicit),
    closed-form Count = explicit index-set CountSet, residual weights' squares sum to 1.
L3 (A): for seeded configurations TLC (ScaledOps_Eval) returns the spec's Scale2 and Count per slot as exact rationals;
    the harness compares (a) the forward/backward scalars fitted on the real op (constraint=None) with Scale2 and
    (b) term counts MEASURED by running the PyTorch reference op on all-ones tensors with Count.  Three-way agreement.
"""
from __future__ import annotations

import json
import math
import random
from fractions import Fraction
from typing import Any, Dict, List, Optional, Tuple

import torch
import torch.nn.functional as F

from . import common, ops
from .common import Report


def prod(xs) -> int:
    r = 1
    for x in xs:
        r *= int(x)
    return r


def gen(rng: random.Random, n: int) -> List[Dict[str, Any]]:
    """harness cfg (for ops.probe) + the spec record `c`."""
    out: List[Dict[str, Any]] = []
    dims = [1, 2, 3, 5, 8, 16, 33, 64]
    batches = [[], [1], [4], [2, 3], [3, 1, 2], [2, 2, 5], [7, 3]]
    while len(out) < n:
        op = rng.choice(["linear", "linear_readout", "matmul", "conv1d", "add", "embedding", "dropout", "mse_loss", "layer_norm", "rms_norm", "residual_add"])
        if op in ("linear", "linear_readout"):
            bt = rng.choice(batches)
            fi, fo, bias = rng.choice(dims), rng.choice(dims), rng.random() < 0.5
            out.append({"cfg": {"op": op, "constraint": None, "batch": bt, "fan_in": fi, "fan_out": fo, "bias": bias},
                        "c": {"op": op, "fi": fi, "fo": fo, "batch": prod(bt), "bias": bias}})
        elif op == "matmul":
            bt = rng.choice([[], [2], [4], [2, 3], [6, 1], [3, 2, 2]])
            a, b, c = rng.choice(dims), rng.choice(dims), rng.choice(dims)
            vec = rng.choice([None, None, None, "left", "right", "both"])    # 1-D operands of torch.matmul: the missing dim counts as size 1
            if vec:
                bt, a, c = [], (1 if vec in ("left", "both") else a), (1 if vec in ("right", "both") else c)
            out.append({"cfg": dict({"op": op, "constraint": None, "batch": bt, "a": a, "b": b, "c": c}, **({"vec": vec} if vec else {})), "c": {"op": op, "a": a, "b": b, "c": c}})
        elif op == "conv1d":
            g = rng.choice([1, 1, 2, 3])
            k, st, dil = rng.choice([1, 2, 3, 4, 5]), rng.choice([1, 2, 3]), rng.choice([1, 2])
            pad = rng.choice([0, 0, 0, 1, 2])
            L = 2 * dil * (k - 1) + 2 * st + 1 + rng.choice([0, 1, 5])
            bt = rng.choice([[], [1], [3]])
            cin, cout, bias = g * rng.choice([1, 2, 4]), g * rng.choice([1, 2, 3]), rng.random() < 0.5
            out.append({"cfg": {"op": op, "constraint": None, "batch": bt, "cin": cin, "cout": cout, "k": k, "len": L, "stride": st, "padding": pad, "dilation": dil, "groups": g, "bias": bias},
                        "c": {"op": op, "cin": cin, "cout": cout, "groups": g, "k": k, "stride": st, "dil": dil, "pad": pad, "len": L, "batch": prod(bt), "bias": bias}})
        elif op == "add":
            shapes = [[3], [1], [2, 3], [1, 3], [2, 1], [2, 1, 3], [4, 2, 3], [1, 2, 1], [5, 1, 1, 2], [1, 4, 1, 2], [2, 2], []]
            sa, sb = rng.choice(shapes), rng.choice(shapes)
            if not ops._broadcastable(sa, sb):
                continue
            out.append({"cfg": {"op": op, "constraint": None, "sa": sa, "sb": sb}, "c": {"op": op, "sa": sa, "sb": sb}})
        elif op == "embedding":
            # batch drawn INDEPENDENTLY of the vocabulary (batch < vocab, co-prime sizes included): the count batch / vocab is a rational
            V = rng.choice([1, 2, 3, 6, 10, 50])
            bt = rng.choice([[rng.choice([1, 2, 3, 7, 12, 20])], [rng.choice([1, 2, 5]), rng.choice([1, 3, 4])], [V, rng.choice([1, 2, 3])]])
            out.append({"cfg": {"op": op, "batch": bt, "vocab": V, "dim": rng.choice([1, 3]), "padding_idx": None, "max_norm": None}, "c": {"op": op, "vocab": V, "batch": prod(bt)}})
        elif op == "dropout":
            p = rng.choice([(1, 4), (1, 2), (3, 4), (1, 10), (9, 10)])
            out.append({"cfg": dict({"op": op, "p": p[0] / p[1], "training": True, "batch": [4], "n": 64}, **({"via_module": True} if rng.random() < 0.4 else {})), "c": {"op": op, "p": list(p)}})
        elif op == "mse_loss":
            sh = rng.choice([[3], [2, 3], [4, 1, 2]])
            out.append({"cfg": {"op": op, "shape": sh, "reduction": rng.choice(["mean", "sum"])}, "c": {"op": op}})
        elif op in ("layer_norm", "rms_norm"):
            ns = rng.choice([[4], [3, 2], [1], [8]])
            bt = rng.choice([[], [3], [2, 3], [2, 1, 4]])
            bias = rng.random() < 0.6
            bias_only = op == "layer_norm" and rng.random() < 0.25
            out.append({"cfg": {"op": op, "batch": bt, "norm_shape": ns, "affine": "bias_only" if bias_only else True, "bias": bias or bias_only, "eps": 1e-5},
                        "c": {"op": op, "normsize": prod(ns), "numel": prod(bt) * prod(ns), "bias": (bias or bias_only) and op == "layer_norm", "weight": not bias_only}})
        else:
            t = rng.choice([(1, 2), (1, 1), (2, 1), (1, 8), (3, 2)])
            out.append({"cfg": {"op": "residual_add", "tau": t[0] / t[1]}, "c": {"op": "residual_add", "tau2": [t[0] * t[0], t[1] * t[1]]}})
    return out


def observed_scales(item: Dict[str, Any]) -> Dict[str, Optional[float]]:
    """slot -> fitted scalar (constraint=None)."""
    cfg = item["cfg"]
    if cfg["op"] == "residual_add":
        import unit_scaling.functional as U

        a, b = torch.randn(5, dtype=torch.float64), torch.randn(5, dtype=torch.float64)
        z = torch.zeros(5, dtype=torch.float64)
        wr = ops.fit(U.residual_add(a, z, cfg["tau"]), a)[0]
        ws = ops.fit(U.residual_add(z, b, cfg["tau"]), b)[0]
        return {"residual": wr, "skip": ws}
    o = ops.probe(cfg, 0)
    if o["err"]:
        return {"__err__": o["err"]}  # type: ignore
    res: Dict[str, Optional[float]] = {"out": o["fwd"]}
    for k, v in o.get("bwd", {}).items():
        res[k] = v["f"]
    return res


def measured_counts(item: Dict[str, Any]) -> Dict[str, Fraction]:
    """Term counts measured on the PyTorch reference op with all-ones tensors."""
    cfg, c = item["cfg"], item["c"]
    op = cfg["op"]
    one = lambda *s: torch.ones(tuple(s), dtype=torch.float64)
    R: Dict[str, Fraction] = {}
    fr = lambda t: Fraction(float(t.detach() if hasattr(t, 'detach') else t)).limit_denominator(1 << 20)
    if op in ("linear", "linear_readout"):
        x = one(*(cfg["batch"] + [cfg["fan_in"]])).requires_grad_(True)
        w = one(cfg["fan_out"], cfg["fan_in"]).requires_grad_(True)
        b = torch.zeros(cfg["fan_out"], dtype=torch.float64, requires_grad=True)
        y = F.linear(x, w, b)
        gx, gw, gb = torch.autograd.grad(y, [x, w, b], torch.ones_like(y))
        R = {"out": fr(y.flatten()[0]), "input": fr(gx.flatten()[0]), "weight": fr(gw.flatten()[0]), "bias": fr(gb.flatten()[0])}
    elif op == "matmul":
        vec = cfg.get("vec")
        l = one(*([cfg["b"]] if vec in ("left", "both") else cfg["batch"] + [cfg["a"], cfg["b"]])).requires_grad_(True)
        r = one(*([cfg["b"]] if vec in ("right", "both") else cfg["batch"] + [cfg["b"], cfg["c"]])).requires_grad_(True)
        y = torch.matmul(l, r)
        gl, gr = torch.autograd.grad(y, [l, r], torch.ones_like(y))
        R = {"out": fr(y.flatten()[0]), "left": fr(gl.flatten()[0]), "right": fr(gr.flatten()[0])}
    elif op == "conv1d":
        x = one(*(cfg["batch"] + [cfg["cin"], cfg["len"]])).requires_grad_(True)
        w = one(cfg["cout"], cfg["cin"] // cfg["groups"], cfg["k"]).requires_grad_(True)
        b = torch.zeros(cfg["cout"], dtype=torch.float64, requires_grad=True)
        y = F.conv1d(x, w, b, cfg["stride"], cfg["padding"], cfg["dilation"], cfg["groups"])
        gx, gw, gb = torch.autograd.grad(y, [x, w, b], torch.ones_like(y))
        p0 = cfg["dilation"] * (cfg["k"] - 1)
        interior = gx.reshape(-1, cfg["len"])[0, p0 : p0 + cfg["stride"]]
        R = {"out": fr(y.reshape(-1, y.shape[-1])[0, y.shape[-1] // 2]), "input": fr(interior.mean()), "weight": fr(gw.flatten()[0]), "bias": fr(gb.flatten()[0])}
    elif op == "add":
        a, b = one(*cfg["sa"]).requires_grad_(True), one(*cfg["sb"]).requires_grad_(True)
        y = torch.add(a, b)
        ga, gb = torch.autograd.grad(y, [a, b], torch.ones_like(y))
        R = {"out": fr(y.flatten()[0]), "input": fr(ga.flatten()[0]), "other": fr(gb.flatten()[0])}
    elif op == "embedding":
        V, n = cfg["vocab"], c["batch"]
        ids = torch.arange(n) % V
        w = one(V, cfg["dim"]).requires_grad_(True)
        y = F.embedding(ids.reshape(cfg["batch"]), w)
        (gw,) = torch.autograd.grad(y, [w], torch.ones_like(y))
        R = {"weight": Fraction(int(round(float(gw[:, 0].sum()))), V)}      # mean number of hits per row of the table
    elif op == "dropout":
        torch.manual_seed(0)
        y = F.dropout(one(4096), cfg["p"], True)
        v = float(y.max())
        keep = Fraction(c["p"][1] - c["p"][0], c["p"][1])
        R = {"out": fr(v * v) * keep, "input": fr(v * v) * keep}
    elif op == "mse_loss":
        def coef(ai, bi):
            a = torch.tensor([ai], dtype=torch.float64, requires_grad=True)
            b = torch.tensor([bi], dtype=torch.float64, requires_grad=True)
            return torch.autograd.grad(F.mse_loss(a, b, reduction="sum"), [a, b])
        ga1, gb1 = coef(1.0, 0.0)   # d/da at (1,0) = 2*1 ; d/db = -2
        ga2, gb2 = coef(0.0, 1.0)
        R = {"input": fr(ga1[0] ** 2 + ga2[0] ** 2), "target": fr(gb1[0] ** 2 + gb2[0] ** 2)}
    elif op in ("layer_norm", "rms_norm"):
        ns = cfg["norm_shape"]
        x = torch.randn(*(cfg["batch"] + ns), dtype=torch.float64)
        w = one(*ns).requires_grad_(True)
        if op == "layer_norm":
            b = torch.zeros(*ns, dtype=torch.float64, requires_grad=True)
            y = F.layer_norm(x, ns, w if c.get("weight", True) else None, b)
            (gb,) = torch.autograd.grad(y, [b], torch.ones_like(y))
            R = {"weight": Fraction(y.numel(), w.numel()), "bias": fr(gb.flatten()[0])}
        else:
            y = F.rms_norm(x, ns, w)
            R = {"weight": Fraction(y.numel(), w.numel())}
    elif op == "residual_add":
        R = {"residual": Fraction(1), "skip": Fraction(1)}
    return R


def judge(rep: Report, item: Dict[str, Any], exp: Dict[str, Any]) -> None:
    cfg = item["cfg"]
    obs = observed_scales(item)
    if "__err__" in obs:
        rep.violation(f"{cfg['op']} raised on a valid configuration: {obs['__err__']} cfg={cfg}", {"item": item}, key=f"error:{cfg['op']}")
        return
    cnt = measured_counts(item)
    if not exp["resid"] or not exp["readout"]:
        raise common.MachineryError("spec identity (ResidualWeights / ReadoutOutput) false in ScaledOps_Eval")
    for s in exp["slots"]:
        slot = s["slot"]
        e2 = Fraction(s["scale2"][0], s["scale2"][1])
        ec = Fraction(s["count"][0], s["count"][1])
        if not s["unit"]:
            raise common.MachineryError(f"spec: Scale2*Count != 1 without exception for {cfg} slot {slot}")
        o = obs.get(slot)
        if o is None:
            rep.violation(f"{cfg['op']}: no gradient / value observed for slot {slot}, cfg={cfg}", {"item": item, "slot": slot}, key=f"missing:{cfg['op']}:{slot}")
            continue
        tol = 1e-5 if cfg["op"] == "rms_norm" else 1e-9   # rms statistic is computed in float32 by the library
        if abs(o * o - float(e2)) > tol * float(e2) or o <= 0:
            rep.violation(f"{cfg['op']} slot {slot}: observed scale^2 = {o * o:.10g}, spec Scale2 = {e2} = {float(e2):.10g}; cfg={cfg}",
                          {"item": item, "slot": slot, "observed": o, "spec_scale2": s["scale2"]}, key=f"scale:{cfg['op']}:{slot}")
            continue
        m = cnt.get(slot)
        padded_conv = cfg["op"] == "conv1d" and cfg["padding"] > 0 and slot in ("out", "input", "weight")
        if m is not None and not padded_conv and m != ec and not (cfg["op"] == "add" and slot == "out" and s["exception"]):
            rep.violation(f"{cfg['op']} slot {slot}: term count measured on the all-ones reference = {m}, spec Count = {ec}; cfg={cfg}",
                          {"item": item, "slot": slot, "measured": [m.numerator, m.denominator], "spec_count": s["count"]}, key=f"count:{cfg['op']}:{slot}")
            continue
        if m is not None and not s["exception"] and abs(o * o * float(m) - 1.0) > tol:
            rep.violation(f"{cfg['op']} slot {slot}: scale^2 x measured count = {o * o * float(m):.10g} != 1; cfg={cfg}", {"item": item, "slot": slot}, key=f"unit:{cfg['op']}:{slot}")
    # the scale of a gradient is fixed by shapes alone: it is the same when only THAT input requires a gradient (bias-only
    # fine-tuning with frozen weights, a first layer whose data input needs none, ...)
    grad_slots = [s for s in exp["slots"] if s["slot"] != "out" and obs.get(s["slot"]) is not None]
    if cfg["op"] != "residual_add" and len(grad_slots) >= 2:
        for s in grad_slots:
            slot = s["slot"]
            e2 = Fraction(s["scale2"][0], s["scale2"][1])
            o2 = ops.probe(dict(cfg, grad_only=[slot]), 0)
            f = None if o2["err"] else o2.get("bwd", {}).get(slot, {}).get("f")
            tol = 1e-5 if cfg["op"] == "rms_norm" else 1e-9
            if f is None or f <= 0 or abs(f * f - float(e2)) > tol * float(e2):
                rep.violation(f"{cfg['op']} slot {slot}: with ONLY this input requiring a gradient the observed scale^2 = {None if f is None else f * f} "
                              f"({o2['err'] or 'no error'}), spec Scale2 = {e2} = {float(e2):.10g}; cfg={cfg}",
                              {"item": item, "slot": slot, "grad_only": [slot]}, key=f"scale_partial_grad:{cfg['op']}:{slot}")


def run(rep: Report, tier: str) -> None:
    rng = random.Random(common.seed() * 37 + 8)
    torch.manual_seed(common.seed())
    torch.set_num_threads(4)
    res = common.run_tlc("ScaledOps_MC", "ScaledOps_MC.cfg", coverage=True, timeout=600, tag="somc")
    common.tlc_must_pass(res, "ScaledOps_MC")
    rep.add_tlc(res)
    r = common.run_tlc("ScaledOps_MC", "ScaledOps_MC_leg.cfg", timeout=300, tag="somcleg")
    common.tlc_must_fail(r, "ScaledOps_MC Legacy=conv_drops_kernel", "UnitScaleOK")
    rep.extra["l2_refuted_deviations"] = [{"legacy": "conv_drops_kernel", "violated": r.violated_invariant}]
    items = gen(rng, 400 if tier == "quick" else 40000)
    ev = common.tlc_eval("ScaledOps_Eval", "ScaledOps_Eval.cfg", [{"kind": "c03", "c": it["c"]} for it in items], tag="c03eval", timeout=900)
    rep.states += ev["states"]
    rep.transitions += ev["transitions"]
    for it, e in zip(items, ev["out"]):
        judge(rep, it, e)
        rep.case(json.dumps(it["cfg"], sort_keys=True))
    rep.traces = rep.evaluations
    rep.rule = "seeded configurations of the pinned ops (dims to 64, 0-3 batch dims, batched matmul, conv kernel/stride/dilation/groups/padding, broadcast adds to rank 4, embedding, dropout, mse, norm gains, residual add); non-trivial = distinct configurations"
    rep.sample({"cfg": items[0]["cfg"], "spec": ev["out"][0]})
    rep.sample({"cfg": items[1]["cfg"], "spec": ev["out"][1]})
    rep.assumptions += ["fitted scalars at 1e-9 (float64)", "term counts measured by running the torch reference on all-ones tensors (mean over one stride period at interior positions for the conv input gradient)"]


def replay(rep: Report, path: str) -> None:
    d = json.load(open(path))
    it = d["case"]["item"]
    ev = common.tlc_eval("ScaledOps_Eval", "ScaledOps_Eval.cfg", [{"kind": "c03", "c": it["c"]}], tag="c03eval")
    rep.states += ev["states"]
    rep.transitions += ev["transitions"]
    judge(rep, it, ev["out"][0])
    rep.case("replay")
    rep.case(json.dumps(it["cfg"], sort_keys=True))
    rep.traces = 1
    rep.sample(it)
