"""Shared machinery: TLC runner, trace batches, evidence, violations, known findings.

Everything a check does goes through here so that exit codes / output lines are
uniform:
  exit 0  property held on everything explored (KNOWN-FINDING lines allowed)
  exit 1  + "VIOLATION property=<id> replay=<path>"
  exit 2  machinery failure (TLC crashed, import error, ...) -- never a verdict
"""
from __future__ import annotations

import hashlib
import json
import os
import re
import shutil
import subprocess
import sys
import time
from pathlib import Path
from typing import Any, Dict, Iterable, List, Optional, Sequence

VERIF = Path(__file__).resolve().parent.parent
REPO = Path(os.environ.get("VERIF_REPO", "/repo"))
SPEC = VERIF / "spec"
WORK = VERIF / ".work"
EVID = VERIF / "evidence"
REPLAYS = VERIF / "replays"
GUARD = "UNIT_SCALING_VERIF"

if str(REPO) not in sys.path:
    sys.path.insert(0, str(REPO))
os.environ.setdefault("PYTHONHASHSEED", "0")


class MachineryError(RuntimeError):
    pass


def seed() -> int:
    try:
        return int(os.environ.get("VERIF_SEED", "0"))
    except ValueError:
        return 0


_wd_counter = [0]


def workdir(tag: str) -> Path:
    _wd_counter[0] += 1
    d = WORK / f"{tag}-{os.getpid()}-{int(time.time()*1000) % 10**9}-{_wd_counter[0]}"
    d.mkdir(parents=True, exist_ok=True)
    return d


def cleanup(d: Path) -> None:
    shutil.rmtree(d, ignore_errors=True)


# --------------------------------------------------------------------------
# TLC
# --------------------------------------------------------------------------

_TLC_CP = "/opt/veriftools/tla/tla2tools.jar:/opt/veriftools/tla/CommunityModules-deps.jar"


class TLCResult:
    def __init__(self, out: str, rc: int, wall: float):
        self.out = out
        self.rc = rc
        self.wall = wall
        m = re.search(
            r"(\d+) states generated, (\d+) distinct states found, (\d+) states left",
            out,
        )
        self.generated = int(m.group(1)) if m else 0
        self.distinct = int(m.group(2)) if m else 0
        self.queue = int(m.group(3)) if m else 0
        m = re.search(r"depth of the complete state graph search is (\d+)", out)
        self.depth = int(m.group(1)) if m else 0
        self.no_error = "Model checking completed. No error has been found." in out
        self.violated_invariant: Optional[str] = None
        m = re.search(r"Error: Invariant (\S+) is violated", out)
        if m:
            self.violated_invariant = m.group(1)
        m = re.search(r"Error: Action property (\S+) is violated", out)
        if m:
            self.violated_invariant = m.group(1)
        if "Error: Temporal properties were violated" in out:
            self.violated_invariant = "temporal"
        self.deadlock = "Error: Deadlock reached" in out
        self.other_error = None
        if not self.no_error and not self.violated_invariant and not self.deadlock:
            m = re.search(r"Error: (.*)", out)
            self.other_error = m.group(1) if m else f"rc={rc}"

    def coverage_by_action(self) -> Dict[str, int]:
        """Parse `-coverage 1` output: <Action line .. of module M>: distinct:generated"""
        cov: Dict[str, int] = {}
        for m in re.finditer(
            r"^<(\w+) line \d+, col \d+ to line \d+, col \d+ of module \w+>: (\d+):(\d+)",
            self.out,
            re.M,
        ):
            cov[m.group(1)] = cov.get(m.group(1), 0) + int(m.group(3))
        return cov

    def printed(self, tag: str) -> List[Any]:
        """Values printed by PrintT(<<"tag", jsonstring>>) -> parsed JSON list."""
        res = []
        for m in re.finditer(r'^<<"' + re.escape(tag) + r'", "(.*)">>$', self.out, re.M):
            s = m.group(1).encode().decode("unicode_escape")
            res.append(json.loads(s))
        # TLC's workers print in a nondeterministic order: canonical order, so that seeded choices made over this list
        # (sampling, dtype/shape draws) are reproducible from VERIF_SEED alone
        res.sort(key=lambda v: json.dumps(v, sort_keys=True))
        return res

    def error_trace(self) -> str:
        i = self.out.find("Error:")
        return self.out[i : i + 6000] if i >= 0 else ""


def run_tlc(
    module: str,
    cfg: Optional[str] = None,
    *,
    workers: int | str = "auto",
    timeout: int = 600,
    env: Optional[Dict[str, str]] = None,
    coverage: bool = False,
    simulate: Optional[str] = None,
    depth: Optional[int] = None,
    extra: Sequence[str] = (),
    deadlock: bool = False,
    heap: str = "8g",
    tag: str = "tlc",
) -> TLCResult:
    """Run TLC on spec/<module>.tla with spec/<cfg> in a scratch metadir."""
    wd = workdir(tag)
    try:
        cfgp = SPEC / (cfg or f"{module}.cfg")
        cmd = [
            "java",
            "-XX:+UseParallelGC",
            f"-Xmx{heap}",
            "-Xss512m",
            "-cp",
            _TLC_CP,
            "tlc2.TLC",
            "-workers",
            str(workers),
            "-metadir",
            str(wd / "meta"),
            "-noGenerateSpecTE",
            "-config",
            str(cfgp),
        ]
        if not deadlock:
            cmd.append("-deadlock")
        if coverage:
            cmd += ["-coverage", "1"]
        if simulate:
            cmd += ["-simulate", simulate]
        if depth:
            cmd += ["-depth", str(depth)]
        cmd += list(extra)
        cmd.append(str(SPEC / f"{module}.tla"))
        e = dict(os.environ)
        e.pop("JAVA_TOOL_OPTIONS", None)
        if env:
            e.update({k: str(v) for k, v in env.items()})
        t0 = time.time()
        try:
            p = subprocess.run(
                cmd, cwd=str(SPEC), env=e, capture_output=True, text=True, timeout=timeout
            )
        except subprocess.TimeoutExpired as ex:
            subprocess.run(["pkill", "-f", str(wd / "meta")], check=False)
            raise MachineryError(f"TLC timeout after {timeout}s on {module}") from ex
        out = p.stdout + p.stderr
        return TLCResult(out, p.returncode, time.time() - t0)
    finally:
        cleanup(wd)


def tlc_must_pass(res: TLCResult, what: str) -> None:
    """An L2 (spec-only) run that fails is a defect of the specification, i.e.
    machinery failure, not a verdict about /repo."""
    if not res.no_error:
        raise MachineryError(
            f"{what}: TLC did not complete cleanly: "
            f"{res.violated_invariant or res.other_error or 'deadlock'}\n{res.error_trace()[:3000]}"
        )


def tlc_must_fail(res: TLCResult, what: str, invariant: Optional[str] = None) -> None:
    """Non-vacuity self-test: a spec with a named deviation must be refuted."""
    if res.no_error or (invariant and res.violated_invariant != invariant):
        raise MachineryError(
            f"{what}: expected TLC to refute {invariant or 'an invariant'}, got "
            f"{res.violated_invariant or res.other_error or 'no error'}"
        )


# --------------------------------------------------------------------------
# Trace batches (direction B) -- harness writes JSON, TLC returns verdicts
# --------------------------------------------------------------------------


def validate_traces(
    module: str,
    cfg: str,
    traces: Any,
    *,
    timeout: int = 900,
    tag: str = "trace",
    extra_env: Optional[Dict[str, str]] = None,
    heap: str = "8g",
) -> Dict[str, Any]:
    """Write `traces` as JSON, run the trace spec (-workers 1), return
    {"fails": [...], "accepted": n, "states": .., "transitions": ..}.

    Contract with every *_Trace.tla: it reads IOEnv.TRACE_FILE, walks all
    traces, and in its final step writes JsonSerialize(IOEnv.OUT_FILE,
    [fails |-> <<...>>, n |-> number of traces consumed, ev |-> events consumed]).
    A trace spec never deadlocks on a bad event: verdicts are total.
    """
    wd = workdir(tag)
    try:
        tf = wd / "traces.json"
        of = wd / "out.json"
        with open(tf, "w") as f:
            json.dump(traces, f, separators=(",", ":"))
        env = {"TRACE_FILE": str(tf), "OUT_FILE": str(of)}
        if extra_env:
            env.update(extra_env)
        res = run_tlc(module, cfg, workers=1, timeout=timeout, env=env, tag=tag, heap=heap)
        if not res.no_error or not of.exists():
            raise MachineryError(
                f"trace validation {module}: TLC failed: "
                f"{res.violated_invariant or res.other_error or 'deadlock/no output'}\n"
                f"{res.error_trace()[:4000]}"
            )
        out = json.load(open(of))
        n_expected = len(traces)
        if out.get("n") != n_expected:
            raise MachineryError(
                f"trace validation {module}: consumed {out.get('n')} of {n_expected} traces"
            )
        return {
            "fails": out.get("fails", []),
            "drifts": out.get("drifts", []),
            "n": out["n"],
            "ev": out.get("ev", 0),
            "states": res.distinct,
            "transitions": res.generated,
            "wall": res.wall,
        }
    finally:
        cleanup(wd)


def validate_traces_parallel(module: str, cfg: str, traces: List[Any], *, chunks: int = 8, min_chunk: int = 8, **kw: Any) -> Dict[str, Any]:
    """Same contract as validate_traces, but the batch is split over several TLC processes
    (each trace is validated independently of the others, so splitting is sound)."""
    from concurrent.futures import ThreadPoolExecutor

    n = len(traces)
    k = max(1, min(chunks, n // max(1, min_chunk)))
    if k <= 1:
        return validate_traces(module, cfg, traces, **kw)
    bounds = [(i * n // k, (i + 1) * n // k) for i in range(k)]
    with ThreadPoolExecutor(max_workers=k) as ex:
        parts = list(ex.map(lambda b: validate_traces(module, cfg, traces[b[0] : b[1]], **kw), bounds))
    out: Dict[str, Any] = {"fails": [], "drifts": [], "n": 0, "ev": 0, "states": 0, "transitions": 0, "wall": 0.0}
    for (lo, hi), r in zip(bounds, parts):
        for f in r["fails"]:
            out["fails"].append([f[0] + lo] + list(f[1:]))
        for d in r.get("drifts", []):
            out["drifts"].append([d[0] + lo] + list(d[1:]))
        for key in ("n", "ev", "states", "transitions"):
            out[key] += r[key]
        out["wall"] = max(out["wall"], r["wall"])
    return out


def tlc_eval(module: str, cfg: str, cases: Any, *, timeout: int = 600, tag: str = "eval") -> Dict[str, Any]:
    """Direction A, point-wise: TLC evaluates the spec's expectation for every
    harness-supplied case and writes [out |-> <<...>>, n |-> N]."""
    wd = workdir(tag)
    try:
        tf = wd / "cases.json"
        of = wd / "out.json"
        with open(tf, "w") as f:
            json.dump(cases, f, separators=(",", ":"))
        res = run_tlc(module, cfg, workers=1, timeout=timeout, env={"TRACE_FILE": str(tf), "OUT_FILE": str(of)}, tag=tag)
        if not res.no_error or not of.exists():
            raise MachineryError(f"tlc_eval {module}: {res.violated_invariant or res.other_error or 'no output'}\n{res.error_trace()[:3000]}\n{res.out[-1500:]}")
        out = json.load(open(of))
        if out.get("n") != len(cases):
            raise MachineryError(f"tlc_eval {module}: {out.get('n')} of {len(cases)} cases")
        return {"out": out["out"], "states": res.distinct, "transitions": res.generated}
    finally:
        cleanup(wd)


# --------------------------------------------------------------------------
# Violations, replay files, known findings
# --------------------------------------------------------------------------


class Report:
    """Collects what one check run did and found."""

    def __init__(self, pid: str, tier: str):
        self.pid = pid
        self.tier = tier
        self.t0 = time.time()
        self.violations: List[Dict[str, Any]] = []
        self.known_hits: List[str] = []
        self.states = 0
        self.transitions = 0
        self.traces = 0
        self.evaluations = 0
        self.nontrivial: set = set()
        self.samples: List[Any] = []
        self.coverage_by_action: Dict[str, int] = {}
        self.extra: Dict[str, Any] = {}
        self.assumptions: List[str] = []
        self.exhaustive: Optional[bool] = None
        self.rule = ""
        self.notes: List[str] = []
        self._known = load_known_findings().get(pid, [])

    # --- accounting
    def add_tlc(self, res: TLCResult, with_cov: bool = True) -> None:
        self.states += res.distinct
        self.transitions += res.generated
        if with_cov:
            for k, v in res.coverage_by_action().items():
                self.coverage_by_action[k] = self.coverage_by_action.get(k, 0) + v

    def drift(self, what: str) -> None:
        """The code no longer follows the spec's ALGORITHM model although the
        property-level clauses hold: reported, never a violation."""
        self.extra["model_drift"] = self.extra.get("model_drift", 0) + 1
        if len([n for n in self.notes if n.startswith("MODEL-DRIFT")]) < 5:
            self.notes.append("MODEL-DRIFT (non-gating): " + what)

    def beyond(self, what: str) -> None:
        """A behaviour the specification covers BEYOND the listed property (growth items) disagrees with the code:
        reported and counted in the evidence, never a VIOLATION of the property."""
        self.extra["beyond_property_disagreements"] = self.extra.get("beyond_property_disagreements", 0) + 1
        if len([n for n in self.notes if n.startswith("BEYOND-PROPERTY")]) < 5:
            self.notes.append("BEYOND-PROPERTY (non-gating): " + what)

    def add_trace_result(self, r: Dict[str, Any]) -> None:
        for d in r.get("drifts", []):
            self.drift(f"trace/event #{d[0]}: {d[1]}")
        self.states += r["states"]
        self.transitions += r["transitions"]
        self.traces += r["n"]

    def case(self, key: Any, nontrivial: bool = True) -> None:
        self.evaluations += 1
        if nontrivial:
            self.nontrivial.add(
                key if isinstance(key, (str, int, tuple)) else json.dumps(key, sort_keys=True, default=str)
            )

    def sample(self, s: Any, limit: int = 6) -> None:
        if len(self.samples) < limit:
            self.samples.append(s)

    # --- findings
    def violation(self, what: str, case: Any, key: Optional[str] = None) -> None:
        """Record a violation unless it matches a listed known finding."""
        k = key or what
        for kf in self._known:
            if kf.get("status") == "open" and re.search(kf["match"], k):
                msg = f"KNOWN-FINDING: property={self.pid} {kf['what']}"
                if msg not in self.known_hits:
                    self.known_hits.append(msg)
                return
        self.violations.append({"what": what, "key": k, "case": case})

    def finish(self) -> int:
        wall = time.time() - self.t0
        for m in self.known_hits:
            print(m)
        for n in self.notes:
            print("note:", n)
        replay_paths = []
        REPLAYS.mkdir(exist_ok=True)
        for v in self.violations[:20]:
            blob = json.dumps(v, sort_keys=True, default=str)
            dg = hashlib.sha1(blob.encode()).hexdigest()[:12]
            p = REPLAYS / f"{self.pid}-{dg}.json"
            with open(p, "w") as f:
                json.dump({"property": self.pid, "tier": self.tier, "seed": seed(), **v}, f, indent=1, default=str)
            replay_paths.append(p)
        cov: Dict[str, Any] = {
            "states": self.states,
            "transitions": self.transitions,
            "traces_validated_against_impl": self.traces,
            "samples": self.samples or ["(no sample recorded)"],
            "evaluations": self.evaluations,
            "distinct_nontrivial": len(self.nontrivial),
            "rule": self.rule,
            "coverage_by_action": self.coverage_by_action,
        }
        if self.exhaustive is not None:
            cov["exhaustive"] = self.exhaustive
        cov.update(self.extra)
        ev = {
            "property_id": self.pid,
            "tier": self.tier,
            "seed": seed(),
            "level": "model_checking",
            "coverage": cov,
            "assumptions": self.assumptions,
            "wall_s": round(wall, 2),
            "violations": len(self.violations),
        }
        EVID.mkdir(exist_ok=True)
        if not getattr(self, "is_replay", False):     # a --replay run re-examines one case: it does not describe the check's coverage
            with open(EVID / f"{self.pid}.json", "w") as f:
                json.dump(ev, f, indent=1, default=str)
        for v, p in zip(self.violations, replay_paths):
            print(f"VIOLATION property={self.pid} replay={p}")
            print(f"  what: {v['what']}")
        if len(self.violations) > len(replay_paths):
            print(f"  (+{len(self.violations) - len(replay_paths)} more violations not written)")
        status = "FAIL" if self.violations else "ok"
        print(
            f"[{self.pid}] {status} tier={self.tier} states={self.states} transitions={self.transitions} "
            f"traces={self.traces} evaluations={self.evaluations} nontrivial={len(self.nontrivial)} wall={wall:.1f}s"
        )
        return 1 if self.violations else 0


def load_known_findings() -> Dict[str, List[Dict[str, Any]]]:
    p = VERIF / "known_findings.json"
    if not p.exists():
        return {}
    data = json.load(open(p))
    out: Dict[str, List[Dict[str, Any]]] = {}
    for e in data.get("findings", []):
        out.setdefault(e["property"], []).append(e)
    return out


# --------------------------------------------------------------------------
# Rationals
# --------------------------------------------------------------------------
from fractions import Fraction


def to_rat(x: float, rel: float = 1e-9, max_den: int = 1 << 30) -> Optional[Fraction]:
    """Smallest-denominator rational within rel*|x| of x (continued fractions)."""
    if x == 0:
        return Fraction(0)
    fx = Fraction(x)
    lo_d = 1
    # limit_denominator with increasing bounds = continued-fraction convergents
    d = 1
    while d <= max_den:
        c = fx.limit_denominator(d)
        if abs(c - fx) <= rel * abs(fx):
            return c
        d *= 4
    return None


def rat_json(fr: Fraction) -> List[int]:
    return [fr.numerator, fr.denominator]


def fits32(*xs: int) -> bool:
    return all(abs(int(x)) < (1 << 31) for x in xs)
