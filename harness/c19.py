"""C19 -- graph pruning removes exactly the intended nodes, keeps the graph connected.

L2: Prune_MC: every tracked graph with <= 2 (thorough: 3) op nodes over {view, scale change, non-float (positional and
    keyword fed), add, cat over a list, keyword-fed op}, outputs of 1-2 tensors; each helper run step by step, C19OK
    (never raises, well-formed, original order, exactly the documented removals, bypass rule, edges preserved);
    two pre-fix deviations refuted.
L3 (B): tracked graphs of randomly generated modules (list arguments, keyword tensors, integer index tensors, bool
    masks, sizes, views/negations, near-unit scale changes, fan-out, multiple outputs) are produced by the real
    ScaleTrackingBackend (forward + backward, integer-valued tensors) and by track_scales through TorchDynamo; the three
    real helpers are run for rtol in {2^-16, 2^-8, 2^-2} and random target sets; (input graph, result, input graph
    after, exception) is validated by Prune_Trace against the spec's Run + C19OK.
"""
from __future__ import annotations

import copy
import json
import math
import random
from typing import Any, Dict, List, Optional, Tuple

import torch
from torch import fx, nn

from . import common, fxgen
from .common import Report

RTOLS = [(1, 65536), (1, 256), (1, 4)]


def tracked_graph_direct(rng: random.Random, n_ops: int, backward: bool, name_output: bool = False) -> fx.Graph:
    from unit_scaling.transforms._track_scales import ScaleTrackingBackend

    gm, nin, nout = fxgen.random_tracked_module(rng, n_ops, name_output=name_output)
    xs = [x.requires_grad_() for x in fxgen.int_inputs(rng, nin)]
    be = ScaleTrackingBackend()
    f = be(gm, xs)
    outs = f(*xs)
    if backward:
        g = torch.Generator().manual_seed(rng.randrange(1 << 30))
        loss = sum((o * torch.randint(-2, 3, o.shape, generator=g).float()).sum() for o in outs if o.is_floating_point())
        if isinstance(loss, torch.Tensor) and loss.requires_grad:
            loss.backward()
    return be.graph


class DynMod(nn.Module):
    def __init__(self, variant: int):
        super().__init__()
        self.variant = variant
        self.lin = nn.Linear(8, 8, bias=False)
        with torch.no_grad():
            self.lin.weight.copy_(torch.randint(-2, 3, (8, 8)).float())

    def forward(self, x):
        v = self.variant
        a = x.reshape(4, 8)
        if v % 3 == 0:
            b = torch.cat([a, -a], dim=0)[:4]
        elif v % 3 == 1:
            b = torch.stack([a, a * 2]).sum(dim=0)
        else:
            h1, h2 = a[:, :4], a[:, 4:]
            b = torch.cat([-h2, h1], dim=-1)
        c = self.lin(b) if v % 2 == 0 else torch.mul(input=b, other=a)
        idx = torch.argmax(c, dim=1)
        d = torch.index_select(c, 1, idx)
        if v % 5 == 0:
            # user code that calls its result `output`: TorchDynamo names the CALL node "output" and the graph's real output
            # node "output_1" -- node names are not node kinds
            output = (d.sum() + c.view(-1).sum()) * 2
            return output
        if v % 5 == 1:
            output = (d.sum() + c.view(-1).sum()).reshape(1)      # a same-scale node named "output": must be pruned like any other
            return output
        return (d.sum() + c.view(-1).sum()) * 2


def tracked_graph_dynamo(rng: random.Random, variant: int) -> fx.Graph:
    from unit_scaling.transforms import track_scales

    torch.manual_seed(variant)
    m = track_scales(DynMod(variant))
    x = fxgen.int_inputs(rng, 1)[0]
    out = m(x)
    out.sum().backward()
    return m.scales_graph()


def threshold_ambiguous(absg: List[Dict[str, Any]], rtol: Tuple[int, int]) -> bool:
    """mean_abs pairs whose relative difference is within 1e-9 of rtol: float isclose is undecidable there."""
    rt = rtol[0] / rtol[1]
    vals = []
    for n in absg:
        if n["float"]:
            vals.append(n["fwd"][0] / n["fwd"][1])
            if n["bwd"][0] >= 0:
                vals.append(n["bwd"][0] / n["bwd"][1])
    vals = sorted(set(vals))
    for i, a in enumerate(vals):
        for b in vals[i + 1 :]:
            m = max(abs(a), abs(b))
            if m > 0 and abs(abs(a - b) / m - rt) < 1e-9:
                return True
    return False


def exact_metrics(absg: List[Dict[str, Any]], g: fx.Graph) -> bool:
    """The projection keeps metrics as rationals with denominator <= 2^14: require that to be exact."""
    for n, node in zip(absg, g.nodes):
        m = node.meta.get("metrics")
        if m is None:
            continue
        if abs(n["fwd"][0] / n["fwd"][1] - m.fwd.mean_abs) > 1e-12 * max(1.0, abs(m.fwd.mean_abs)):
            return False
        if m.bwd is not None and abs(n["bwd"][0] / n["bwd"][1] - m.bwd.mean_abs) > 1e-12 * max(1.0, abs(m.bwd.mean_abs)):
            return False
        if max(n["fwd"] + [abs(x) for x in n["bwd"]]) >= 1 << 15:
            return False
    return True


def rescaled(g: fx.Graph, k: int) -> fx.Graph:
    """The same tracked graph with every recorded metric multiplied by 2^k (exact: a power of two).  'Same scale within rtol' is a
    RELATIVE statement, so the helper must make the same decisions at any overall magnitude (tiny gradients of a 1e-9-scaled loss,
    huge activations); the abstract graph sent to TLC keeps the unscaled rationals."""
    g2 = copy.deepcopy(g)
    f = 2.0 ** k
    for n in g2.nodes:
        m = n.meta.get("metrics")
        if m is None:
            continue
        m = copy.deepcopy(m)
        for d in (m.fwd, m.bwd):
            if d is not None:
                for fld in ("mean_abs", "abs_mean", "std", "abs_max", "abs_min"):
                    setattr(d, fld, getattr(d, fld) * f)
        n.meta["metrics"] = m
    return g2


def one_trace(g: fx.Graph, h: str, rtol: Tuple[int, int], targets: List[Any], magnitude: int = 0) -> Dict[str, Any]:
    from unit_scaling.transforms import prune_non_float_tensors, prune_same_scale_tensors, prune_selected_nodes

    absg, ids = fxgen.fx_to_abs(g)
    if magnitude:
        g = rescaled(g, magnitude)
    work = g if h != "selected" else copy.deepcopy(g)   # prune_selected_nodes works in place: give it its own copy
    err, out = "", None
    try:
        if h == "non_float":
            out = prune_non_float_tensors(work)
        elif h == "same_scale":
            out = prune_same_scale_tensors(work, rtol[0] / rtol[1])
        else:
            out = prune_selected_nodes(work, targets)
        out.lint()
    except Exception as ex:
        err = f"{type(ex).__name__}: {str(ex)[:150]}"
    after, _ = fxgen.fx_to_abs(g, ids)
    tnames = sorted({fxgen.target_name(t) for t in targets})
    rec = {"h": h, "rtol": list(rtol), "targets": tnames, "g": absg, "out": fxgen.fx_to_abs(out, ids)[0] if (out is not None and not err) else [], "err": err, "after": after}
    if out is not None and not err and out is g and h != "selected":
        rec["err"] = "returned the input graph object itself"
    return rec


def table_trace(g: fx.Graph) -> Optional[Dict[str, Any]]:
    """Growth item: analysis.graph_to_dataframe applied to the float-only graph, as analysis.plot does."""
    import math

    from unit_scaling.analysis import graph_to_dataframe
    from unit_scaling.transforms import Metrics, prune_non_float_tensors

    absg, ids = fxgen.fx_to_abs(g)
    rec: Dict[str, Any] = {"h": "table", "rtol": [0, 1], "targets": [], "g": absg, "out": [], "err": "", "after": [], "rows": []}
    try:
        g1 = prune_non_float_tensors(g)
    except Exception:
        return None   # judged by the non_float trace
    by_clean: Dict[str, List[fx.Node]] = {}
    for n in g1.nodes:
        by_clean.setdefault(n.meta.get("clean_name", n.name), []).append(n)
    if any(len(v) > 1 for v in by_clean.values()):
        return None   # clean names collide: rows cannot be attributed by name
    try:
        df = graph_to_dataframe(g1)
    except Exception as ex:
        rec["err"] = f"{type(ex).__name__}: {str(ex)[:150]}"
        return rec
    names, full = Metrics.names(), Metrics.full_names()
    for _, row in df.iterrows():
        cands = by_clean.get(row["layer"], [])
        n = cands[0] if cands else None
        d = getattr(n.meta["metrics"], row["direction"], None) if n is not None and row["direction"] in ("fwd", "bwd") else None
        val = row[full[names.index("mean_abs")]]
        others = True
        for m, fm in zip(names, full):
            v = row[fm]
            e = getattr(d, m) if d is not None else None
            isnone = v is None or (isinstance(v, float) and math.isnan(v) and (e is None or not (isinstance(e, float) and math.isnan(e))))
            if e is None:
                others = others and (v is None or (isinstance(v, float) and math.isnan(v)))
            elif isinstance(e, float) and math.isnan(e):
                others = others and isinstance(v, float) and math.isnan(v)
            else:
                others = others and (not isnone) and float(v) == float(e)
        rec["rows"].append({"id": ids[n.name] if n is not None else 0, "weight": bool(row["weight tensor"]), "dir": str(row["direction"]), "type": str(row["tensor type"]),
                            "val": fxgen.rat(None if (val is None or (isinstance(val, float) and math.isnan(val))) else float(val)),
                            "name_ok": n is not None and row["layer"] == n.meta.get("clean_name"), "others_ok": bool(others)})
    return rec


SKIPS = {"graphs_with_inexact_metrics": 0, "same_scale_rtol_too_close_to_a_threshold": 0, "graphs": 0, "graphs_separating_rtol_2^-16_from_2^-8": 0}


def chain_trace(g: fx.Graph, rtol: Tuple[int, int], targets: List[Any]) -> Dict[str, Any]:
    """The pipeline analysis.plot runs: prune_non_float_tensors, then prune_same_scale_tensors on ITS result, then
    prune_selected_nodes on that (helpers applied to already re-wired graphs)."""
    from unit_scaling.transforms import prune_non_float_tensors, prune_same_scale_tensors, prune_selected_nodes

    absg, ids = fxgen.fx_to_abs(g)
    err, out = "", None
    try:
        g1 = prune_non_float_tensors(g)
        g2 = prune_same_scale_tensors(g1, rtol[0] / rtol[1])
        out = prune_selected_nodes(copy.deepcopy(g2), targets)
        out.lint()
    except Exception as ex:
        err = f"{type(ex).__name__}: {str(ex)[:150]}"
    return {"h": "chain", "rtol": list(rtol), "targets": sorted({fxgen.target_name(t) for t in targets}), "g": absg,
            "out": fxgen.fx_to_abs(out, ids)[0] if (out is not None and not err) else [], "err": err, "after": fxgen.fx_to_abs(g, ids)[0]}


def traces_for_graph(g: fx.Graph, rng: random.Random) -> List[Dict[str, Any]]:
    absg, _ = fxgen.fx_to_abs(g)
    SKIPS["graphs"] += 1
    if not exact_metrics(absg, g):
        SKIPS["graphs_with_inexact_metrics"] += 1
        return []
    if any(n["tgt"] == "op.mul" and any(a == ["c", "1.001953125"] for a in n["args"]) for n in absg):
        SKIPS["graphs_separating_rtol_2^-16_from_2^-8"] += 1
    tr = [one_trace(g, "non_float", (0, 1), [])]
    tt = table_trace(g)
    if tt is not None:
        tr.append(tt)
    tgts = sorted({n.target for n in g.nodes if n.op in ("call_function", "call_method")}, key=str)
    for rt in RTOLS:
        if not threshold_ambiguous(absg, rt):
            tr.append(one_trace(g, "same_scale", rt, []))
            if rng.random() < 0.5:      # the same decision at another overall magnitude (2^-40 ~ 1e-12, 2^40 ~ 1e12)
                tr.append(one_trace(g, "same_scale", rt, [], magnitude=rng.choice([-40, -30, 40])))
            if tgts and rng.random() < 0.5:
                tr.append(chain_trace(g, rt, rng.sample(tgts, rng.randint(1, min(2, len(tgts))))))
        else:
            SKIPS["same_scale_rtol_too_close_to_a_threshold"] += 1
    for _ in range(2):
        if tgts:
            tr.append(one_trace(g, "selected", (0, 1), rng.sample(tgts, rng.randint(1, min(3, len(tgts))))))
    return tr


def generate(gen: List[Any]) -> Tuple[List[Dict[str, Any]], int]:
    """One self-contained case: gen = [family, case seed, (variant)]; recorded in every trace so that a replay re-creates it."""
    crng = random.Random(gen[1])
    if gen[0] == "direct":
        g = tracked_graph_direct(crng, crng.randint(1, 10), backward=crng.random() < 0.75, name_output=gen[1] % 4 == 0)
    else:
        g = tracked_graph_dynamo(crng, gen[2])
    tr = traces_for_graph(g, crng)
    for t in tr:
        t["gen"] = gen
    return tr, len(list(g.nodes))


def judge(rep: Report, traces: List[Dict[str, Any]]) -> None:
    B = 1500
    for i in range(0, len(traces), B):
        batch = traces[i : i + B]
        out = common.validate_traces("Prune_Trace", "Prune_Trace.cfg", batch, timeout=2400, tag="prunetr")
        rep.add_trace_result(out)
        for (l, clause) in out["fails"]:
            t = batch[l - 1]
            if clause.startswith("spec_") or clause.startswith("harness_"):
                raise common.MachineryError(f"Prune_Trace: {clause} on {json.dumps(t)[:800]}")
            if clause.startswith("table_"):   # graph_to_dataframe is outside C19's statement
                rep.beyond(f"analysis.graph_to_dataframe: {clause}{' -- ' + t['err'] if t['err'] else ''}; graph targets={[n['tgt'] for n in t['g']]}")
                continue
            rep.violation(f"{t['h']} (rtol={t['rtol']}, targets={t['targets']}): {clause}{' -- ' + t['err'] if t['err'] else ''}; graph targets={[n['tgt'] for n in t['g']]}",
                          t, key=f"{clause}:{t['h']}")


def run(rep: Report, tier: str) -> None:
    rng = random.Random(common.seed() * 43 + 12)
    torch.manual_seed(common.seed())
    torch.set_num_threads(2)
    quick = tier == "quick"
    res = common.run_tlc("Prune_MC", "Prune_MC.cfg" if quick else "Prune_MC_3.cfg", coverage=True, timeout=2400, tag="prune")
    common.tlc_must_pass(res, "Prune_MC")
    rep.add_tlc(res)
    for leg in ("toplevel_args_only", "toplevel_inputs_only"):
        r = common.run_tlc("Prune_MC", f"Prune_MC_{leg}.cfg", timeout=300, tag="pruneleg")
        common.tlc_must_fail(r, f"Prune Legacy={leg}")
        rep.extra.setdefault("l2_refuted_deviations", []).append({"legacy": leg, "violated": r.violated_invariant})
    traces: List[Dict[str, Any]] = []
    gens: List[List[Any]] = [["direct", rng.randrange(1 << 30)] for _ in range(120 if quick else 1500)] + [["dynamo", rng.randrange(1 << 30), v] for v in range(3 if quick else 12)]
    for i, gen in enumerate(gens):
        t, nn_ = generate(gen)
        traces += t
        rep.case((gen[0], i), nontrivial=nn_ >= 5)
    judge(rep, traces)
    rep.extra["traces_by_helper"] = {h: sum(1 for t in traces if t["h"] == h) for h in ("non_float", "same_scale", "selected", "table", "chain")}
    rep.extra["skips"] = dict(SKIPS)
    if SKIPS["graphs_separating_rtol_2^-16_from_2^-8"] < (5 if quick else 50) or SKIPS["graphs_with_inexact_metrics"] > 0.4 * SKIPS["graphs"]:
        raise common.MachineryError(f"C19 generator degenerate: {SKIPS}")
    rep.rule = "tracked graphs of random modules with 1-10 ops (direct backend; a few through TorchDynamo) x {non_float, same_scale x 3 rtols, selected x 2 random target sets}; graphs whose metrics sit within 1e-9 of an rtol threshold are skipped for that rtol; non-trivial = graphs with >= 5 nodes"
    if traces:
        t = traces[len(traces) // 2]
        rep.sample({"h": t["h"], "rtol": t["rtol"], "targets": t["targets"], "g_targets": [n["tgt"] for n in t["g"]], "out_ids": [n["id"] for n in t["out"]]})
    rep.assumptions += ["metrics come from integer-valued tensors so mean_abs is an exact small rational", "projection fx_to_abs (node names -> ids, nested args)"]


def replay(rep: Report, path: str) -> None:
    """Re-creates the recorded graph (family + case seed) and re-runs every helper on it with the current code."""
    d = json.load(open(path))
    t = d["case"]
    rep.case("replay")
    rep.case(json.dumps(t.get("gen")))
    rep.sample({"h": t["h"], "targets": t["targets"], "gen": t.get("gen")})
    torch.set_num_threads(2)
    if not t.get("gen"):
        run(rep, "quick")
        return
    judge(rep, generate(t["gen"])[0])
