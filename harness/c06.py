"""C06 -- residual split/add: normalised mix, delayed branch scaling, true input gradient.

L2: Tape_MC phase "resid": every residual program (ordered forest of layers) with <= 4 (thorough 6; 7 without
    emission) layers; for every path forward coefficient bag = backward coefficient bag (true gradient), forward
    weights are exactly r_i / k_i, the add does not scale the branch gradient; three deviations refuted.
L3 (A): each program emitted by TLC with its path coefficients is built from the real residual_split /
    residual_add (and residual_apply) with linear branch maps: output and x.grad must equal the sum over the
    spec's paths of (product of the path's symbols) x (product of the path's matrices); with nonlinear and
    unit-scaled branches the closed form is evaluated recursively in plain torch; a hook on every branch output
    must see the layer's upstream gradient.
"""
from __future__ import annotations

import contextlib
import json
import math
import random
from typing import Any, Callable, Dict, List

import torch

from . import common
from .common import Report

TAUS = [1e-3, 0.125, 0.5, 1.0, 2.0, 8.0, 1e3]


def children(par: List[int], p: int) -> List[int]:
    return [i + 1 for i, q in enumerate(par) if q == p]


def run_real(par: List[int], taus: List[float], fns: List[Callable], x: torch.Tensor, use_apply: bool, hooks: Dict[int, Any]):
    import unit_scaling.functional as U

    def seq(nodes: List[int], h: torch.Tensor) -> torch.Tensor:
        for i in nodes:
            tau = taus[i - 1]

            def branch(res, i=i):
                inner = seq(children(par, i), res)
                out = fns[i - 1](inner)
                if out.requires_grad:
                    out.register_hook(lambda g, i=i: hooks.setdefault(("branch", i), g.clone()))
                return out

            if use_apply:
                h = U.residual_apply(branch, h, tau)
            else:
                res, skip = U.residual_split(h, tau)
                h = U.residual_add(branch(res), skip, tau)
            if h.requires_grad:
                h.register_hook(lambda g, i=i: hooks.setdefault(("out", i), g.clone()))
        return h

    return seq(children(par, 0), x)


def run_reference(par: List[int], taus: List[float], fns: List[Callable], x: torch.Tensor) -> torch.Tensor:
    def seq(nodes, h):
        for i in nodes:
            tau = taus[i - 1]
            h = (h + tau * fns[i - 1](seq(children(par, i), h))) / math.sqrt(1 + tau * tau)
        return h

    return seq(children(par, 0), x)


def sym_value(sym: str, tau: float) -> float:
    d = math.sqrt(1 + tau * tau)
    return {"r": tau / d, "k": 1 / d, "1": 1.0}[sym]


def check_program(rep: Report, prog: Dict[str, Any], rng: random.Random, n_trials: int) -> None:
    import unit_scaling.functional as U

    par = list(prog["par"])
    n = len(par)
    dim = 3
    for trial in range(n_trials):
        g = torch.Generator().manual_seed(rng.randrange(1 << 30))
        taus = [rng.choice(TAUS) if rng.random() < 0.7 else 10 ** rng.uniform(-3, 3) for _ in range(n)]
        mats = [torch.randn(dim, dim, generator=g, dtype=torch.float64) for _ in range(n)]
        x0 = torch.randn(2, dim, generator=g, dtype=torch.float64)
        up = torch.randn(2, dim, generator=g, dtype=torch.float64)
        case = {"par": par, "taus": taus, "trial": trial}
        rep.case(("prog", tuple(par), trial), nontrivial=n >= 2)
        # (0) process history: the SAME program and taus are first run in a lower precision (compared at that precision's
        # tolerance) -- "for any tau" must not depend on which dtype used a tau first in this process
        wdt, wtol = rng.choice([(torch.bfloat16, 6e-2), (torch.float16, 1e-2), (torch.float32, 1e-4)])
        xw = x0.to(wdt).requires_grad_(True)
        wm = [A.to(wdt) for A in mats]
        yw = run_real(par, taus, [lambda h, A=A: h @ A.t() for A in wm], xw, bool(trial % 2), {})
        (gw,) = torch.autograd.grad(yw, xw, up.to(wdt))
        xw64 = x0.to(wdt).double().requires_grad_(True)
        yw64 = run_reference(par, taus, [lambda h, A=A: h @ A.double().t() for A in wm], xw64)
        (gw64,) = torch.autograd.grad(yw64, xw64, up.to(wdt).double())
        amp = 1.0 + sum(float(A.abs().sum(dim=1).max()) for A in wm)   # crude bound on rounding amplification through the linear branches
        if yw.dtype != wdt or gw.dtype != wdt or not bool(torch.isfinite(yw).all()):
            rep.violation(f"{wdt} run of program par={par}, taus={taus}: wrong dtype or non-finite output", dict(case, kind="low_precision", dtype=str(wdt)), key="low_precision_dtype")
            return
        if float((yw.detach().double() - yw64.detach()).abs().max()) > wtol * amp * max(1.0, float(yw64.detach().abs().max())) or \
                float((gw.double() - gw64).abs().max()) > wtol * amp * max(1.0, float(gw64.abs().max())):
            rep.violation(f"{wdt} run of program par={par}, taus={taus} differs from the reference beyond {wtol:g} x {amp:.3g}", dict(case, kind="low_precision", dtype=str(wdt)), key="low_precision_value")
            return
        # (a) linear branches: closed form from the spec's path coefficients
        for use_apply in (False, True):
            x = x0.clone().requires_grad_(True)
            hooks: Dict[Any, torch.Tensor] = {}
            y = run_real(par, taus, [lambda h, A=A: h @ A.t() for A in mats], x, use_apply, hooks)
            (gx,) = torch.autograd.grad(y, x, up)
            y_exp = torch.zeros_like(x0)
            g_exp = torch.zeros_like(x0)
            for p in prog["paths"]:
                M = torch.eye(dim, dtype=torch.float64)
                for i in p["fs"]:
                    M = mats[i - 1] @ M
                cf = math.prod(sym_value(s, taus[i]) for i in range(n) for s in p["fwd"][i])
                cb = math.prod(sym_value(s, taus[i]) for i in range(n) for s in p["bwd"][i])
                y_exp += cf * (x0 @ M.t())
                g_exp += cb * (up @ M)
            scale = max(1.0, float(y_exp.abs().max()))
            if float((y.detach() - y_exp).abs().max()) > 1e-10 * scale:
                rep.violation(f"forward value differs from the sum over the spec's paths (program par={par}, taus={taus}, residual_apply={use_apply})", dict(case, kind="linear_fwd", use_apply=use_apply), key=f"linear_fwd:{'apply' if use_apply else 'split_add'}")
                return
            gscale = max(1.0, float(g_exp.abs().max()))
            if float((gx - g_exp).abs().max()) > 1e-10 * gscale:
                rep.violation(f"x.grad differs from the sum over the spec's paths (program par={par}, taus={taus}, residual_apply={use_apply})", dict(case, kind="linear_bwd", use_apply=use_apply), key=f"linear_bwd:{'apply' if use_apply else 'split_add'}")
                return
            # unattenuated: gradient at a branch output = gradient at that layer's output
            for i in range(1, n + 1):
                if ("branch", i) in hooks and ("out", i) in hooks:
                    a, b = hooks[("branch", i)], hooks[("out", i)]
                    if float((a - b).abs().max()) > 1e-12 * max(1.0, float(b.abs().max())):
                        rep.violation(f"gradient inside branch {i} is attenuated (x{float(a.flatten()[0] / b.flatten()[0]):.6g}) (program par={par}, taus={taus})", dict(case, kind="unattenuated", layer=i), key="unattenuated")
                        return
        # (b) nonlinear / unit-scaled branches: recursive closed form in plain torch
        kinds = [rng.choice(["tanh", "affine_tanh", "u_gelu", "u_linear"]) for _ in range(n)]
        fns = []
        for k, A in zip(kinds, mats):
            if k == "tanh":
                fns.append(torch.tanh)
            elif k == "affine_tanh":
                fns.append(lambda h, A=A: torch.tanh(h @ A.t()) + 0.5 * h)
            elif k == "u_gelu":
                fns.append(lambda h: U.gelu(h, constraint="to_output_scale"))
            else:
                fns.append(lambda h, A=A: U.linear(h, A, None, constraint="to_output_scale"))
        x = x0.clone().requires_grad_(True)
        y = run_real(par, taus, fns, x, False, {})
        (gx,) = torch.autograd.grad(y, x, up)
        xr = x0.clone().requires_grad_(True)
        yr = run_reference(par, taus, fns, xr)
        (gr,) = torch.autograd.grad(yr, xr, up)
        if float((y.detach() - yr.detach()).abs().max()) > 1e-10 * max(1.0, float(yr.detach().abs().max())):
            rep.violation(f"forward value differs from (x + tau f(x))/sqrt(1+tau^2) composed per the program (par={par}, taus={taus}, branches={kinds})", dict(case, kind="nonlinear_fwd", kinds=kinds), key="nonlinear_fwd")
            return
        if float((gx - gr).abs().max()) > 1e-9 * max(1.0, float(gr.abs().max())):
            rep.violation(f"x.grad is not the derivative of the computed expression (par={par}, taus={taus}, branches={kinds})", dict(case, kind="nonlinear_bwd", kinds=kinds), key="nonlinear_bwd")
            return
        # (b2) inputs that do not require grad (frozen trunk, plain data, torch.no_grad()) with branches whose first op works
        # IN PLACE (nn.ReLU(inplace=True), t.mul_()): the branch input handed out by the split must not share memory with
        # the skip connection or with the caller's tensor
        for ctx in ("frozen", "no_grad"):
            def inplace_branch(h, A=mats[0]):
                return torch.relu_(h).mul_(1.5) @ A.t()
            xin = x0.clone()
            keep = xin.clone()
            tau0 = taus[0]
            with (torch.no_grad() if ctx == "no_grad" else contextlib.nullcontext()):
                if trial % 2:
                    yb = U.residual_apply(inplace_branch, xin, tau0)
                else:
                    res_, skip_ = U.residual_split(xin, tau0)
                    yb = U.residual_add(inplace_branch(res_), skip_, tau0)
            want = (keep + tau0 * ((torch.relu(keep) * 1.5) @ mats[0].t())) / math.sqrt(1 + tau0 * tau0)
            if not torch.equal(xin, keep) or float((yb - want).abs().max()) > 1e-10 * max(1.0, float(want.abs().max())):
                rep.violation(f"residual layer on an input that does not require grad ({ctx}) with an in-place branch: caller's tensor modified={not torch.equal(xin, keep)}, value differs from (x + tau f(x))/sqrt(1+tau^2)={float((yb - want).abs().max()):.3g} (tau={tau0})",
                              dict(case, kind="inplace_branch", ctx=ctx), key=f"inplace_branch:{ctx}")
                return
        # (c) residual_apply is bitwise the split / f / add sequence
        xa = x0.clone().requires_grad_(True)
        ya = run_real(par, taus, fns, xa, True, {})
        (ga,) = torch.autograd.grad(ya, xa, up)
        if not (torch.equal(ya.detach(), y.detach()) and torch.equal(ga, gx)):
            rep.violation(f"residual_apply differs from split/f/add (par={par}, taus={taus})", dict(case, kind="apply", kinds=kinds), key="apply_vs_split_add")
            return


def mix_weights(rep: Report, rng: random.Random, n: int) -> None:
    """single layer: the two mixing weights, read off with f = identity-like probes."""
    import unit_scaling.functional as U

    for _ in range(n):
        tau = rng.choice(TAUS) if rng.random() < 0.5 else 10 ** rng.uniform(-3, 3)
        shape = rng.choice([(3,), (2, 3), (1,), (2, 1, 4), ()])
        x = torch.randn(shape, dtype=torch.float64)
        f = torch.randn(shape, dtype=torch.float64)
        # every way of giving tau: omitted (the default 1.0 of BOTH functions), python int, float, 0-dim tensor, keyword
        form = rng.choice(["float", "float", "omitted", "int", "tensor", "kw"])
        if form == "omitted":
            tau = 1.0
            res, skip = U.residual_split(x)
            y = U.residual_add(f, skip)
        elif form == "int":
            tau = float(rng.choice([1, 2, 3, 10]))
            res, skip = U.residual_split(x, int(tau))
            y = U.residual_add(f, skip, int(tau))
        elif form == "tensor":
            tt = torch.tensor(tau, dtype=torch.float64)
            res, skip = U.residual_split(x, tt)
            y = U.residual_add(f, skip, tt)
        elif form == "kw":
            res, skip = U.residual_split(input=x, tau=tau)
            y = U.residual_add(residual=f, skip=skip, tau=tau)
        else:
            res, skip = U.residual_split(x, tau)
            y = U.residual_add(f, skip, tau)
        d = math.sqrt(1 + tau * tau)
        exp = (x + tau * f) / d
        rep.case(("mix", tau, shape, form))
        if not torch.equal(res.detach(), x) or float((y - exp).abs().max()) > 1e-12 * max(1.0, float(exp.abs().max())):
            rep.violation(f"split/add with tau={tau} (given as {form}) does not compute (x + tau*f)/sqrt(1+tau^2) on shape {shape}", {"kind": "mix", "tau": tau, "shape": list(shape), "form": form}, key=f"mix:{form}")
            return


def run(rep: Report, tier: str) -> None:
    rng = random.Random(common.seed() * 13 + 2)
    quick = tier == "quick"
    res = common.run_tlc("Tape_MC", "Tape_MC_resid.cfg" if quick else "Tape_MC_resid8.cfg", coverage=True, timeout=900, tag="tape")
    common.tlc_must_pass(res, "Tape_MC resid")
    rep.add_tlc(res)
    r7 = common.run_tlc("Tape_MC", "Tape_MC_resid7.cfg", timeout=900, tag="tape7")
    common.tlc_must_pass(r7, "Tape_MC resid (7 layers, no emission)")
    rep.add_tlc(r7, with_cov=False)
    for leg in ("split_swapped", "tau_both_passes_at_split", "add_scales_bwd"):
        r = common.run_tlc("Tape_MC", f"Tape_MC_resid_{leg}.cfg", timeout=300, tag="tapeleg")
        common.tlc_must_fail(r, f"Tape Legacy={leg}", "ResidOK")
        rep.extra.setdefault("l2_refuted_deviations", []).append({"legacy": leg, "violated": r.violated_invariant})
    progs = res.printed("PROG")
    if len(progs) < 20:
        raise common.MachineryError(f"Tape_MC emitted only {len(progs)} programs")
    rep.extra["programs_emitted_by_tlc"] = len(progs)
    for p in progs:
        if p["addbwd"] != "1":
            raise common.MachineryError("spec emitted an attenuating add")
        check_program(rep, p, rng, 2 if quick else 4)
    mix_weights(rep, rng, 40 if quick else 4000)
    rep.exhaustive = True
    rep.traces = len(progs)
    rep.rule = "every residual program (ordered forest) with <= 4 (thorough: 8) layers emitted by TLC with its path coefficient bags; 2-4 trials each (random taus in [1e-3,1e3], linear / nonlinear / unit-scaled branches, residual_apply and split/add); non-trivial = at least 2 layers"
    rep.sample(progs[1])
    rep.sample({"par": progs[-1]["par"], "n_paths": len(progs[-1]["paths"])})
    rep.assumptions += ["float64, tolerance 1e-10 relative on outputs and gradients", "branch maps drawn from {linear, tanh, affine+tanh, U.gelu, U.linear}"]


def replay(rep: Report, path: str) -> None:
    d = json.load(open(path))
    c = d["case"]
    rep.case("replay")
    rep.case(json.dumps(c, default=str))
    rep.traces = 1
    rep.sample(c)
    if c.get("kind") == "mix":
        mix_weights(rep, random.Random(1), 50)
        return
    res = common.run_tlc("Tape_MC", "Tape_MC_resid8.cfg", timeout=900, tag="tape")
    common.tlc_must_pass(res, "Tape_MC resid")
    rep.add_tlc(res)
    for p in res.printed("PROG"):
        if list(p["par"]) == list(c["par"]):
            check_program(rep, p, random.Random(7), 6)
