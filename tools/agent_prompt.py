#!/venv/bin/python
"""Prints the prompt given to an independent sub-agent for property <id> (only the property text + its own worktree)."""
import json, sys
pid = sys.argv[1]
variant = sys.argv[2] if len(sys.argv) > 2 else ""
for l in open('/verif/properties.jsonl'):
    p = json.loads(l)
    if p['id'] == pid:
        break
wt = f"/tmp/wt-{pid}{variant}"
out = f"/tmp/seed-{pid}{variant}"
print(f"""You are helping to evaluate a verification framework for the Python library graphcore-research/unit-scaling (a PyTorch library for unit scaling / u-muP). Your job is to act as a realistic source of regressions.

You have your own scratch git worktree of the library at {wt} (a checkout of the repository's current HEAD). Work ONLY inside {wt} and write your deliverables to {out}/ . Do not read or write anything under /repo or /verif, and do not look for any verification tooling elsewhere on this machine; everything you need is the library source in {wt}.

Here is a semantic property of the library that is supposed to hold for all inputs / configurations / histories:

  Title: {p['title']}
  Statement: {p['statement']}
  Scope (quantifier): {p['quantifier']['text']}

Task: make ONE small, realistic change to the library source under {wt}/unit_scaling (not the tests) that BREAKS this property, while
  (a) the library still imports and runs, and
  (b) the library's existing test suite still passes exactly as before. Run it with:
        cd {wt} && PYTHONPATH={wt} /venv/bin/python -m pytest -q -p no:cacheprovider --timeout=900 unit_scaling/tests
      (it takes ~4 minutes; 4 tests in unit_scaling/tests/test_analysis.py fail on the unmodified tree too - test_create_batch, test_example_batch, test_example_seqs, test_visualiser - ignore those; everything else must pass). Run the directly relevant test files first for quick feedback, then the full suite once at the end.
  (c) The breakage must need something SPECIFIC to manifest: an unusual input or configuration, a particular multi-step sequence of operations, a corner of the input space, or two cooperating code sites that each look fine alone. It must NOT be something that ordinary default use would expose at once (e.g. do not break the default path of a function for all inputs). Think of the kind of plausible bug a maintainer could introduce in a refactor or an "optimisation" and not notice: an off-by-one in an index or exponent, a wrong operand or axis that coincides on common shapes, a dropped branch, a stale cache, an argument not forwarded, handling only one of several cases.
  (d) Prefer a change that violates the property as stated (read the statement and scope carefully), not merely a crash in some unrelated place.

Deliverables in {out}/ :
  1. patch.diff  - output of `git -C {wt} diff` (the change only; do not commit).
  2. demo.py     - a small standalone program (run as: PYTHONPATH=<tree> /venv/bin/python demo.py) that exits 0 and prints PASS on the unmodified tree and exits 1 and prints FAIL (with a short explanation) on the modified tree. It must check the property's own terms (e.g. compare against the PyTorch reference / an exact oracle), not an implementation detail.
  3. meta.json   - {{"property": "{pid}", "summary": "<one paragraph: what was changed>", "needs": "<what specific input/sequence/configuration is needed for the violation to manifest>", "tests_run": "<the commands you ran and their results>"}}

Verify (c) yourself: run demo.py against the modified tree (must FAIL) and against a clean tree (must PASS). Do NOT use `git stash` (the stash is shared between worktrees and other people work concurrently): instead save your change with `git -C {wt} diff > {out}/patch.diff`, clean with `git -C {wt} checkout -- .`, run the demo, then re-apply with `git -C {wt} apply {out}/patch.diff`. Confirm the full test suite result with your change applied. Use /venv/bin/python (it has torch and the library's dependencies). There is no network. Keep CPU use modest (set OMP_NUM_THREADS=4). When done, reply with a short summary of the change, what is needed to trigger it, and the test results.""")
