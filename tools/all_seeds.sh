#!/bin/sh
# usage: tools/all_seeds.sh [outfile] [regex on seed names, e.g. "^C0[19]"]  -- runs every seeded change against the quick tier of its own property's check
# (in the scratch worktree /tmp/mut, never /repo) and prints one line per seed: <seed> <check> CAUGHT|MISSED|BROKEN
OUT="${1:-/tmp/all_seeds.txt}"; : > "$OUT"; FILT="${2:-.}"
git -C /repo worktree list | grep -q /tmp/mut || git -C /repo worktree add -q --detach /tmp/mut HEAD
for d in /verif/seeded/*/; do
  s=$(basename "$d"); id=$(echo "$s" | cut -c1-3)
  echo "$s" | grep -Eq "$FILT" || continue
  # a seed written against one property whose change is a violation of a neighbouring property's statement names that check in meta.json
  rc_=$(jq -r '.run_check // empty' "$d/meta.json" 2>/dev/null); [ -n "$rc_" ] && id="$rc_"
  git -C /tmp/mut checkout -q -- . && git -C /tmp/mut checkout -q --detach "$(git -C /repo rev-parse HEAD)" && git -C /tmp/mut apply "$d/patch.diff" || { echo "$s $id PATCH-FAILS" >> "$OUT"; continue; }
  VERIF_REPO=/tmp/mut /verif/check "$id" --tier quick > /tmp/all_seeds.$s.log 2>&1; rc=$?
  if [ $rc -eq 1 ] && grep -q "^VIOLATION property=$id" /tmp/all_seeds.$s.log; then r=CAUGHT; elif [ $rc -eq 0 ]; then r=MISSED; else r="BROKEN(rc=$rc)"; fi
  echo "$s $id $r $(grep -m1 '^  what:' /tmp/all_seeds.$s.log | cut -c1-140)" >> "$OUT"
  rm -f /tmp/all_seeds.$s.log
  git -C /tmp/mut checkout -q -- .
done
echo DONE >> "$OUT"
