#!/venv/bin/python
"""Regenerates MANIFEST.json from the table below (single source of truth)."""
import json, os, sys
sys.path.insert(0, os.path.dirname(os.path.dirname(os.path.abspath(__file__))))
ROOT = os.path.dirname(os.path.dirname(os.path.abspath(__file__)))

CHECKS = {
 "C13": dict(
   spec="spec/Quantise.tla, Quantise_MC.tla, Quantise_Trace.tla",
   text="TLC checks the quantiser design exhaustively on scaled-down host floats (every host bit pattern x every target format; value-level and pattern-level statements of 'nearest' bridged by an invariant) and validates events recorded from the real FPFormat.quantise at float32 against the same module (algorithm step + declarative Nearest/Representable/Saturates on every event). Thorough tier decides all 2^32 float32 inputs for E4M3/E5M2 by run compression.",
   note="Trusted: torch float32 division/multiplication by powers of two are IEEE RNE; the interval argument for run compression; TLC. L2 bounds: hosts (3,6) quick; (4,6),(4,8),(3,10) thorough.",
   technique="TLA+ spec + TLC exhaustive on small hosts; trace validation of real quantise events at host (8,23)",
   design="4/C13"),
 "C14": dict(
   spec="spec/Quantise.tla, Quantise_MC.tla, Quantise_Trace.tla",
   text="TLC enumerates every random draw for every pattern/format/srbits on small hosts and checks neighbour, fixed-point, monotone-in-draw and exact proportionality (counted, not sampled). The real code is run with torch.randint replaced by an enumerator of all 2^srbits draws; per input the step position is validated by the trace spec against the algorithm model and the proportionality invariant at host (8,23). A third of the (E, M, srbits) cases go through one long-lived stochastic FPFormat whose fields are re-assigned after use.",
   note="The srbits sequence of every format (coarse to fine, default last) goes through one of the entry points quantise / quantise_fwd / quantise_bwd (thorough: all three). Trusted: torch.randint is the only random source; fractional position is taken on the float32 prescaled value with a 2^-(24-M) slack where the prescale rounds (documented reading).",
   technique="TLA+ spec + TLC exhaustive draw enumeration; trace validation with substituted random source",
   design="4/C14"),
 "C09": dict(
   spec="spec/Param.tla, Param_Trace.tla",
   text="TLC explores every history of length <= 4 over the 11 operations x 4 tags x 3 depths of the tagged-parameter state machine (193k states) and checks TagsSurvive/OptimAccepts/HooksInstalled/ValuesKept, and refutes the pre-fix mechanism (Legacy=copy_drops_hooks) with the length-2 counterexample. Every history is then replayed on real objects (copy, pickle, torch.save/load, .to, .half, load_state_dict, requires_grad_, apply_transform) and the projected state after each operation is validated by Param_Trace against the spec's Apply and the C09 clauses (tags, values, Parameter status, optimizer acceptance, same lr factor). Each Transform of a history is one of the six library transforms by name (no-op backend, simulate_fp8, simulate_format, unit_scale, track_scales, compile; the two documented as final-only never followed by another), also on frozen and half-precision parameters.",
   note="Trusted: the projection param_abs (reads p.__dict__, has_parameter_data, scaled_parameters). Mechanism fields (instance hooks) are compared as model drift only; the gating clauses are those of the property. Module pickling after a Transform is outside the spec (module not picklable).",
   technique="TLA+ state machine + TLC exhaustive histories; trace validation of replayed histories",
   design="4/C09"),
 "C10": dict(
   spec="spec/Optim.tla, Optim_MC.tla, Optim_Eval.tla, Rat.tla",
   text="TLC enumerates every (optimizer, readout, tag, shape, depth, lr given, untagged allowed) over small dims as states of Optim_MC (41k), checks that the case analysis LrFactor2 is total, that errors occur exactly where stated, SGD-without-readout = Adam, the Adam/SGD mirror rule and the C12 identity, and emits each state with its expected squared factor (exact rational). Every emitted state is replayed on the real scaled_parameters and SGD/Adam/AdamW constructors (bare list, generator, explicit groups with own/global lr; float, float32- and float64-tensor lr; several parameters sharing one lr in one call); shapes up to 4096 and depths up to 1024 are evaluated point-wise by TLC (Optim_Eval). Every case is also replayed with the parameter frozen (requires_grad False) when the groups are built.",
   note="Trusted: float(lr_out)/lr_in squared compared with the spec's rational at 1e-12 (5e-7 for float32 tensors). The SGD/output-scaled rule for bias/norm is compared for 1-D shapes only ('length' is ambiguous otherwise).",
   technique="TLA+ case-analysis spec + TLC enumeration; replay of TLC-emitted cases into the real optimizers",
   design="4/C10"),
 "C11": dict(
   spec="spec/Optim.tla, Optim_MC.tla, Optim_Eval.tla",
   text="scaled_parameters is specified as a loop over groups with learning-rate cells (a tensor lr is a heap cell with identity). TLC runs it step by step on every input with <= 2 groups x <= 2 parameters (lr absent/float/tensor/shared tensor, weight decay absent/explicit 0/value, extra keys, tagged/untagged, both flags; 723k states) and checks order, one-per-group, no aliasing, caller untouched, error outcomes, and refutes the two aliasing deviations (pre-fix code). Terminal states emitted by TLC are rebuilt from real objects and compared field by field with the real result (scaled_parameters and the optimizer classes; groups, bare lists, generators); random inputs with up to 6 groups x 5 parameters are evaluated point-wise by TLC; real SGD/AdamW zero-gradient steps are compared with the spec's DecayFactor.",
   note="Trusted: projection by id(); tagged parameters are 'weight' (4,4) in the structural replay (Adam factor 1/2) so that in-place scaling of a caller tensor is visible; zero-gradient step compared at 1e-12.",
   technique="TLA+ loop state machine with heap cells + TLC; replay of TLC-emitted inputs; real optimizer steps",
   design="4/C11"),
 "C07": dict(
   spec="spec/ResidualRule.tla, ResidualRule_MC.tla, ResidualRule_Eval.tla, Rat.tla",
   text="The rule is specified in exact rationals of squared quantities; TLC checks the one-step lemma (1+tau_i^2) S_i = S_{i+1} for every branch index of every depth (quick: 14 depths up to 256 layers; thorough: all 1..256) x the 8x8 (mult, ratio) grid, the telescoped totals (sum of squared contributions = 1, attention:MLP = ratio^2, mean layer/embedding = mult^2) and explicit contribution products for depths <= 6, and refutes an off-by-one and a parity-swap deviation. TLC then emits tau^2 for every (mult, ratio, depth, index) and the harness compares the real rule (fresh objects, one shared rule object queried for random depth histories) and the taus wired into TransformerStack/TransformerDecoder built for several depths in random order and in sweeps of inline (temporary) rule objects at one depth, read after module histories (casts, deepcopy, eval/train). Stacks are built on both sides of the decimal-digit boundaries of the child names (10, 11, 12, 21, 101 layers) and their taus read in the order the layers run.",
   note="Trusted: float64 tau squared vs the spec's rational at 1e-12. The induction from the one-step lemma to the product identities is checked explicitly only for depths <= 6.",
   technique="TLA+ rational-arithmetic spec + TLC (lemma over all depths); replay of TLC-emitted tau^2 against the real rule and stacks",
   design="4/C07"),
 "C12": dict(
   spec="spec/Optim.tla (UpdateSize2, OutScale2, LrFactor2), Optim_MC.tla, Optim_Eval.tla",
   text="The cross-module identity (forward scale of the layer) x (learning-rate factor of its tag) x (number of summed terms) = 1/sqrt(depth) is an invariant of Optim_MC over all small shapes (WidthIndependent). For seeded configurations (widths to 4096, kernels 1-9, depth None/1..64) TLC evaluates UpdateSize2 and the harness performs one real Adam/AdamW step (eps=0, float64, +-1 inputs, zero-free upstream gradient) on real Linear/LinearReadout/Conv1d layers and compares the move of every output coordinate with eta*sqrt(UpdateSize2) at 1e-9; the layer reaches the optimizer alone, in one explicit group before/after other layers, in a second group, or under a tensor lr.",
   note="Trusted: torch Adam semantics with eps=0; depth d realised by a DepthSequential of d layers.",
   technique="TLA+ identity checked by TLC + replay of TLC-evaluated expectations on real optimizer steps",
   design="4/C12"),
 "C01": dict(
   spec="spec/ScaledOps.tla, ScaledOps_MC.tla, ScaledOps_Trace.tla",
   text="ScaledOps specifies the op tables (which ops exist, which report PyTorch's value exactly, which arguments are rejected) and a call-log memo machine (a configuration never maps to two factor classes). TLC checks the tables and that the memo machine refuses a data-dependent factor. Every op of the functional namespace x batch ranks 0-3 x hyperparameters x every constraint name x dtypes is then called on real tensors (two data draws + a repeated call) and compared element-wise with the torch reference; the recorded log (factor classes, shape/dtype/immutability/residual flags, expected rejections) is validated event by event by ScaledOps_Trace. Validate.tla binds unsupported arguments to default / truthy / falsy non-default values (None, False, 0, '' that differ from the default), by position or keyword; rejection is demanded for all non-default bindings (deviations keywords_only, falsy_is_off refuted) and replayed on _validate and the real ops.",
   note="The numeric comparison (least-squares scalar, relative residual, tolerance by dtype; rms_norm at 5e-6 because the library computes its statistic in float32) is harness-side; TLC decides functional dependence, exact-1, and rejections from the flags. All factors are free positive constants for this property.",
   technique="TLA+ memo-machine spec; trace validation of the real call log by TLC",
   design="4/C01"),
 "C02": dict(
   spec="spec/Tape.tla, Tape_MC.tla, ScaledOps.tla, ScaledOps_Trace.tla",
   text="Tape specifies scale_fwd/scale_bwd on a (value multiplier, gradient multiplier) pair; TLC explores every chain of <= 3 primitives over 10 signed rational factors (0, negatives, +-1000) and emits each with its expected multipliers, which are replayed on the real primitives. The C01 configuration space x every differentiable input x two data draws x two upstream gradients + a repeated call is run against autograd of the torch reference; the log is validated by ScaledOps_Trace (one positive factor class per (configuration, input); exact direction).",
   note="As C01; mean-reduced losses use the sum-reduced reference for gradients. Process history is part of the quantifier: size-siblings, a second pass in a fresh interpreter in reverse order in the same call log, a dtype-order probe on the primitives; non-contiguous inputs, all-keyword calls and partial requires_grad patterns share the configuration id of their base call (one factor for all). Gradient slots whose conditioning on the given data is poor (measured on PyTorch alone: the same reference in a second precision) are skipped and counted.",
   technique="TLA+ tape spec + TLC chain enumeration replayed on the primitives; trace validation of gradient logs",
   design="4/C02"),
 "C03": dict(
   spec="spec/ScaledOps.tla (Scale2, Count, CountSet), ScaledOps_MC.tla, ScaledOps_Eval.tla",
   text="The pinned squared scales are written as the code computes them, next to an independent term-count model (explicit index sets of each contraction). TLC checks Scale2*Count = 1 for every op/slot over all small shapes (exceptions explicit), closed-form counts = index-set counts, residual weights' squares = 1. For seeded larger configurations TLC returns Scale2 and Count as rationals; the harness compares the scalars fitted on the real op and the term counts measured on the all-ones torch reference: three-way agreement. Every gradient slot's scale is measured again with only that input requiring a gradient.",
   note="Fitted scalars at 1e-9 (rms_norm 1e-5); conv input-gradient count is the mean over one stride period at interior positions; padded convolutions are excepted for output/input/weight as the property states.",
   technique="TLA+ term-count model + TLC; replay of TLC-evaluated scales/counts against fitted scalars and measured counts",
   design="4/C03"),
 "C05": dict(
   spec="spec/Constraints.tla, Constraints_MC.tla, ScaledOps.tla (Group), ScaledOps_Eval.tla",
   text="The six constraint rules are specified over exact rationals (geometric mean through n-th powers); TLC checks bounds, H<=G<=A, symmetry, homogeneity, selection and collapse for all tuples of 1-4 scales and refutes a swapped-means deviation; every emitted tuple is replayed on the real gmean/hmean/amean/apply_constraint (x 1e-6..1e6), 4-6-tuples are evaluated by TLC. For ops, TLC yields the symbolic constrained scale of each slot of (op, constraint) over free symbols bound to the scalars observed without constraint; the harness evaluates it and compares forward and constrained input-gradient scalars (collapse), weight/bias scalars (unchanged), fixed-group ops, invalid names, and runs gradcheck on the constrained inputs.",
   note="gradcheck (float64 finite differences) is a harness observation; scalars compared at 1e-9.",
   technique="TLA+ rational spec of the rules + TLC; symbolic expectations from TLC evaluated against observed scalars",
   design="4/C05"),
 "C06": dict(
   spec="spec/Tape.tla, Tape_MC.tla",
   text="Residual programs are ordered forests of layers whose four edges carry (forward, backward) multipliers r_i/k_i; TLC enumerates every program with <= 4 (thorough: 8, the full range of the property's quantifier: 2055 programs) layers and checks that on every path the forward and backward coefficient bags coincide (true gradient), that forward weights are r_i/k_i and that the add leaves the branch gradient unattenuated, refuting three deviations. Each emitted program with its path coefficients is built from the real residual_split/residual_add/residual_apply: with linear branches output and x.grad must equal the sum over the spec's paths; with nonlinear / unit-scaled branches the recursive closed form and its autograd; hooks check the unattenuated branch gradient; residual_apply must be bitwise the split/f/add sequence.",
   note="float64 at 1e-10; taus in [1e-3, 1e3]; every program is first run in bf16/f16/f32 with the same taus (process history) at that precision's tolerance; inputs that do not require grad / torch.no_grad() with in-place branches; tau given as float / int / 0-dim tensor / keyword / omitted.",
   technique="TLA+ tape/path-algebra spec + TLC program enumeration replayed on the real residual ops",
   design="4/C06"),
 "C18": dict(
   spec="spec/TrackScales.tla, TrackScales_MC.tla, TrackScales_Trace.tla",
   text="TrackScales contains a reverse-mode interpreter over small integer vectors and the instrumentation rule of run_node (identity tracker after every float node). TLC checks for every program with <= 2 ops (thorough: 3 ops by simulation), fan-out, bool masks, detached branches and 1-2 outputs that instrumentation leaves values and input gradients unchanged, that the tracker sees the value that flowed and the TOTAL gradient (summed over all consumers), and that non-float values are never instrumented; a detaching tracker is refuted. Real module graphs (direct backend, analyse_module's interpreter, TorchDynamo track_scales) are run with and without tracking (bitwise comparison) and every recorded metric is validated by TrackScales_Trace against integer sums captured independently with a plain fx.Interpreter + retain_grad; a second family runs float64/float32 graphs on dyadic non-integer values (exact sums, not representable in a narrower type) with the statistics compared in float64. The TorchDynamo family's module has, by variant, a frozen weight and a float buffer taking part: tracking must leave requires_grad flags and absent gradients as they were.",
   note="Integer-valued tensors (|v| <= 64) make mean_abs/abs_mean/abs_max/abs_min/numel exact rationals; std is compared through std^2 n(n-1) with a slack of 8 + exact/2^18 (metrics are float32). Graphs leaving the exact range are skipped and counted.",
   technique="TLA+ reverse-mode interpreter spec + TLC; trace validation of recorded metrics against independently captured tensors",
   design="4/C18"),
 "C19": dict(
   spec="spec/FxGraph.tla, Prune.tla, Prune_MC.tla, Prune_Trace.tla",
   text="FxGraph models torch.fx graphs (ordered node list, nested arguments, replace-all-uses, erase-needs-no-users); Prune models _prune and the three helpers one loop iteration per step, next to a declarative statement (never raises, well-formed, original order, exactly the documented removals, single-float-input nodes bypassed wherever they occur, edges preserved). TLC checks all tracked graphs with <= 2 (thorough 3: 471k states) op nodes incl. list arguments, keyword tensors, non-float nodes, 1-2 outputs, 2 rtols, 3 target sets, and refutes the two pre-fix deviations. Tracked graphs of random real modules (ScaleTrackingBackend forward+backward, and track_scales through TorchDynamo) are pruned by the real helpers for rtol in {2^-16,2^-8,2^-2} and random target sets; input graph, result, input graph afterwards and any exception are validated by Prune_Trace (node list, order, every argument position, immutability of the input). A share of the graphs (hand-built and TorchDynamo) has a CALL node named 'output': the output node is identified by its kind in the spec and in the projection.",
   note="The helpers are also chained as analysis.plot does (non_float, then same_scale on its result, then selected). Metrics come from integer-valued tensors (power-of-two numel) so mean_abs is an exact small rational; skip counters are in the evidence and a degenerate generator is a machinery failure; (graph, rtol) pairs within 1e-9 of the isclose threshold are skipped.",
   technique="TLA+ graph-rewriting spec + TLC over all small graphs; trace validation of real pruning runs",
   design="4/C19"),
 "C16": dict(
   spec="spec/UnitScale.tla, UnitScale_MC.tla, UnitScale_Trace.tla",
   text="UnitScale models the passes of unit_scaling_backend one loop iteration per step (with FX's replace/erase/iteration rules, the user map, dependency snapshots, residual classification, split/getitem/add insertion, unconstraining) next to an order-independent RECIPE (the User-Guide conversion as a map from the input graph). TLC runs the algorithm on every graph with 2 placeholders and 3 op nodes (1.65M states) and checks that its output term equals the recipe's and that the result executes, that the linear-time graph matching used for traces coincides with term equality, and (thorough) refutes the two pre-fix deviations and explores 5-op graphs by simulation. Random well-nested real FX graphs of 1-16 ops (nested residual blocks, skips that are inputs / residual outputs / plain sums, plain, scalar and in-place adds, user replacements) go through the real backend and are executed; (input graph, result graph, exception) is validated against the recipe by UnitScale_Trace; a module family goes through unit_scale()/TorchDynamo incl. torch.nn wrappers, weight re-initialisation and the untouched original.",
   note="Gating = the recipe (property level); disagreement with the step-by-step algorithm model is reported as drift only. The family predicate (well-nested, no dead nodes) is part of the spec. F.softmax's private _stacklevel keyword is dropped by the built-in map (named in the spec).",
   technique="TLA+ algorithm-refines-recipe spec + TLC over all small graphs; trace validation of real backend runs against the recipe",
   design="4/C16"),
 "C15": dict(
   spec="spec/SimFormat.tla, SimFormat_MC.tla, SimFormat_Eval.tla, Quantise.tla, Quantise_Trace.tla, FxGraph.tla",
   text="SimFormat models the argument-splicing rewrite of _quantisation_backend, the meaning of the four _quantised_* wrappers as explicit straight-through Qf/Qb nodes, and a declarative recipe built straight from the input graph; TLC checks Expand(Rewrite(G)) = Recipe(G) (up to argument-passing style), that nothing else changes and that no parameter is bound twice for every graph with <= 2 (thorough 3) op nodes over all call styles, refuting the two pre-fix deviations. Straight-through bit patterns are validated by Quantise_Trace. For random real FX graphs (depth 1-12, inputs of rank 2-4) TLC emits the recipe graph, which is built into a reference module and compared BITWISE (outputs and every gradient, random source pinned) with the module produced by the real backend for nearest / stochastic / explicit-srbits / lossless format pairs; a module family goes through simulate_format/simulate_fp8 (TorchDynamo) against hand-written references.",
   note="FPFormat.quantise itself is trusted here (C13/C14). Lossless-vs-original gradients are compared up to float32 re-association (64 x the distance of the original float32 gradients from float64 gradients of the same module), because the inserted autograd nodes permute the accumulation order of tensors with >= 3 consumers; outputs bitwise. Known finding: a root module that is itself a torch.nn layer is not transformed.",
   technique="TLA+ rewrite-refines-recipe spec + TLC; TLC-emitted recipe graphs replayed as reference modules against the real transform",
   design="4/C15"),
 "C17": dict(
   spec="spec/Transforms.tla, Transforms_MC.tla, Transforms_Trace.tla",
   text="Transforms models apply_transform as a heap of modules (backend list, lazy re-trace flag, cached pipeline copied by reference on deepcopy, _order_backends) with Apply and Call actions. TLC explores every history with <= 4 modules and <= 3 calls (233k states; transforms may branch from any module, calls interleaved) and checks: the original is never touched, every pipeline is canonical (each transform once, unit scaling before quantisation, track/compile last), the pipeline in effect at a call is the module's own, same transform set => same pipeline, repeated calls do not re-run; a stale-cache and a no-reorder deviation are refuted. Histories are replayed on a family of real modules; per step the harness records which backends actually ran (library log records), a bitwise fingerprint of outputs and gradients (seeds pinned), whether any other module's parameters/buffers changed and storage sharing; Histories come from the harness AND from TLC itself (Transforms_Gen: all 1170 maximal histories with 3 modules x 3 calls, quick replays 30, thorough all + simulated 5x5 histories). Transforms_Trace validates each history (nothing else modified, storage disjoint, canonical pipeline, the computed function depends only on the set of transforms). The lossless format pair does not count in the transform set that keys the function: unit_scale + lossless simulation must compute bitwise what unit_scale alone computes.",
   note="Backend-list and flag bookkeeping is compared as drift only; the model includes the global torch._dynamo.reset() of a first call (other modules re-trace with their own pipeline), so the unchanged tree is drift-free. compile (Inductor) only in the thorough tier.",
   technique="TLA+ heap-of-modules state machine + TLC over all histories; trace validation of replayed transform/call histories",
   design="4/C17"),
 "C08": dict(
   spec="spec/Modules.tla, Modules_MC.tla",
   text="Modules.tla is the table of the 11 leaf modules: constructor options over their valid values (plus the values the library declares unsupported), the functional op each must equal, the ARGUMENT MAPPING (which option / parameter / mode feeds which functional argument, incl. the padded-input rule of Conv1d), parameter tags and initial-value classes, and the depth-container rule. TLC enumerates all 2338 configurations, checks that every option is forwarded, consumed by construction or rejected and that tags are known to the optimizer rules, and emits each configuration with its expectation. Every configuration is constructed for real: module(x) and all gradients are compared BITWISE with the functional call assembled from the spec's mapping (train/eval, two input shapes, pinned RNG), with the torch.nn twin (shape, positive scalar multiple), tags and initial values; composite modules (MLP, MHSA, TransformerLayer, TransformerDecoder) against compositions of functional ops on their own parameters; depth containers (every construction form: positional, OrderedDict, list, generator, composite children, TransformerStack; depths 1-6) tag depth = number of children, apply their layers in order and refuse untagged parameters. weight_mup_type of Linear/LinearReadout is an enumerated option (it decides the tag, never the function); depth containers are probed with up to 12 children for order and depth.",
   note="Unit-variance of fresh weights is a sampling-error bound (5 sigma) on large instances. The composite references are harness-coded compositions of unit_scaling.functional.",
   technique="TLA+ option/argument-mapping table + TLC enumeration; replay of TLC-emitted configurations against real modules",
   design="4/C08"),
 "C20": dict(
   spec="spec/ScaledOps.tla (memo machine, Modes), ScaledOps_MC.tla, ScaledOps_Trace.tla",
   text="The memo machine of ScaledOps keys a factor class by (configuration, slot) only; the events of one configuration recorded in eager mode, under torch.compile (aot_eager; thorough: inductor), through the library's leaf-wrapping tracer (gradients) and through plain fx.symbolic_trace (forward, where traceable) carry the same configuration id, so ScaledOps_Trace rejects a factor that differs between modes. In addition outputs and gradients are compared element-wise with the eager run with a dtype-scaled bound (float64: 1e-12; compositions: 64 x their float32-vs-float64 amplification x eps), for a slice of the C01/C02 configurations (every op, f64/f32/bf16) and for random compositions of 2-6 unit-scaled ops and modules. ops.configs always contains adds with a one-element operand of rank >= 1, and the variant key distinguishes how a one-element operand is spelt.",
   note="TorchDynamo/AOT autograd/Inductor are trusted as given. Every public module is also compiled as a module and called with changing batch sizes; compositions are called twice (second batch size); an op that was fx-traceable on the pinned tree and stops being so violates the fx clause. Dropout with p>0 in training mode is excluded (RNG streams differ in torch itself). Ops that plain torch.fx cannot trace symbolically are skipped for the fx clause and counted in the evidence.",
   technique="TLA+ memo machine across execution modes; trace validation + element-wise closeness to eager",
   design="4/C20"),
}
CHECKS = dict(sorted(CHECKS.items()))

NA = {
 "C04": "Gaussian expectations of transcendental functions over continuous ranges: no reals/exp/erf/integration in TLA+; a check would be numerical quadrature, i.e. a different technique (DESIGN.md section 5).",
}

ALL = ["C%02d" % i for i in range(1, 21)]

def main():
    checks = []
    for pid in ALL:
        if pid not in CHECKS:
            continue
        c = CHECKS[pid]
        checks.append({
            "property_id": pid,
            "quick_cmd": f"./check {pid} --tier quick",
            "thorough_cmd": f"./check {pid} --tier thorough",
            "evidence_file": f"/verif/evidence/{pid}.json",
            "replay_cmd_template": f"./check {pid} --replay {{path}}",
            "engine": "tlc",
            "level_claimed": {"category": "model_checking", "text": c["text"], "design_ref": f"DESIGN.md section {c['design']}"},
            "level_note": c["note"],
            "technique": c["technique"],
        })
    na = []
    for pid in ALL:
        if pid in CHECKS:
            continue
        na.append({"property_id": pid, "reason": NA.get(pid, "check not yet built in this session (planned, see DESIGN.md section 4); not claimed until it runs clean")})
    m = {
        "version": 1,
        "setup_cmd": "./setup.sh",
        "hooks": {
            "guard": "UNIT_SCALING_VERIF",
            "enable": "export UNIT_SCALING_VERIF=1 (set by ./check); /repo is imported from its working tree via PYTHONPATH, nothing is built",
            "baseline_off_cmd": "cd /repo && env -u UNIT_SCALING_VERIF /venv/bin/python -m pytest -ra -q -p no:cacheprovider --timeout=900 --continue-on-collection-errors",
            "source_commits": [],
            "add_only": True,
        },
        "engines": [
            {"name": "tlc", "path": "/opt/veriftools/tla/tla2tools.jar", "serves_properties": sorted(CHECKS), "kind_free_text": "TLC 1.8 explicit-state model checker; specs in /verif/spec; conformance harness in /verif/harness (Python, drives /repo's working tree)"},
        ],
        "checks": checks,
        "not_applicable": na,
        "notes": "Every check = (L2) TLC on the TLA+ spec alone + (L3) conformance between the spec and /repo's working tree (trace validation and/or replay of TLC-emitted behaviours). See DESIGN.md.",
    }
    json.dump(m, open(os.path.join(ROOT, "MANIFEST.json"), "w"), indent=1)
    print("wrote MANIFEST.json:", len(checks), "checks,", len(na), "not_applicable")

if __name__ == "__main__":
    main()
