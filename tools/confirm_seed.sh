#!/bin/sh
# usage: tools/confirm_seed.sh seeded/<dir>  -> confirms demo PASS on clean HEAD, FAIL with patch, suite passes with patch.
# Writes seeded/<dir>/confirm.log ; exit 0 if all confirmed.
D="$(cd "$1" && pwd)"; N="$(basename "$D")"; WT="/tmp/cf-$N"
export OMP_NUM_THREADS=4
git -C /repo worktree remove --force "$WT" 2>/dev/null
git -C /repo worktree add -q --detach "$WT" HEAD || exit 2
LOG="$D/confirm.log"; : > "$LOG"
echo "base: $(git -C /repo rev-parse --short HEAD)" >> "$LOG"
( cd "$WT" && PYTHONPATH="$WT" /venv/bin/python "$D/demo.py" > /tmp/cf-$N.clean 2>&1 ); RC1=$?
echo "demo on clean tree: rc=$RC1 $(tail -1 /tmp/cf-$N.clean)" >> "$LOG"
if ! git -C "$WT" apply "$D/patch.diff" 2>>"$LOG"; then echo "patch does not apply to HEAD" >> "$LOG"; git -C /repo worktree remove --force "$WT"; exit 3; fi
( cd "$WT" && PYTHONPATH="$WT" /venv/bin/python "$D/demo.py" > /tmp/cf-$N.mut 2>&1 ); RC2=$?
echo "demo on patched tree: rc=$RC2 $(tail -1 /tmp/cf-$N.mut | cut -c1-300)" >> "$LOG"
( cd "$WT" && PYTHONPATH="$WT" /venv/bin/python -m pytest -q -p no:cacheprovider --timeout=900 unit_scaling/tests -x --deselect unit_scaling/tests/test_analysis.py::test_create_batch --deselect unit_scaling/tests/test_analysis.py::test_example_batch --deselect unit_scaling/tests/test_analysis.py::test_example_seqs --deselect unit_scaling/tests/test_analysis.py::test_visualiser > /tmp/cf-$N.suite 2>&1 ); RC3=$?
echo "suite on patched tree: rc=$RC3 $(tail -1 /tmp/cf-$N.suite)" >> "$LOG"
git -C /repo worktree remove --force "$WT"; rm -f /tmp/cf-$N.clean /tmp/cf-$N.mut /tmp/cf-$N.suite
if [ $RC1 -eq 0 ] && [ $RC2 -ne 0 ] && [ $RC3 -eq 0 ]; then echo "CONFIRMED" >> "$LOG"; exit 0; else echo "NOT CONFIRMED" >> "$LOG"; exit 1; fi
