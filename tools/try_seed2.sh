#!/bin/sh
# like try_seed.sh but in a second scratch worktree (/tmp/mut2), so it can run while tools/all_seeds.sh uses /tmp/mut
D="$(cd "$1" && pwd)"; ID="$2"; TIER="${3:-quick}"
git -C /repo worktree list | grep -q /tmp/mut2 || git -C /repo worktree add -q --detach /tmp/mut2 HEAD
git -C /tmp/mut2 checkout -q -- . && git -C /tmp/mut2 checkout -q --detach "$(git -C /repo rev-parse HEAD)" && git -C /tmp/mut2 apply "$D/patch.diff" || exit 3
VERIF_REPO=/tmp/mut2 /verif/check "$ID" --tier "$TIER" 2>&1 | grep -E "^\[C|^  what" | tail -3 | cut -c1-330
git -C /tmp/mut2 checkout -q -- .
