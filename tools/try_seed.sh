#!/bin/sh
# usage: tools/try_seed.sh seeded/<dir> <CHECK-ID> [tier]  -- applies the patch in the scratch worktree /tmp/mut (never /repo) and runs the check against it
D="$(cd "$1" && pwd)"; ID="$2"; TIER="${3:-quick}"
git -C /repo worktree list | grep -q "/tmp/mut " || git -C /repo worktree add -q --detach /tmp/mut HEAD
git -C /tmp/mut checkout -q -- . && git -C /tmp/mut checkout -q --detach "$(git -C /repo rev-parse HEAD)" && git -C /tmp/mut apply "$D/patch.diff" || exit 3
VERIF_REPO=/tmp/mut /verif/check "$ID" --tier "$TIER" 2>&1 | tail -3 | cut -c1-400
git -C /tmp/mut checkout -q -- .
