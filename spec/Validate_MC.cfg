CONSTANTS Legacy = {}  Emit = TRUE
SPECIFICATION Spec
INVARIANT RejectExactly
INVARIANT DecorationOK
INVARIANT EmitCall
