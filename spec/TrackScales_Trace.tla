-------------------------- MODULE TrackScales_Trace --------------------------
(***************************************************************************)
(* Validates one tracked run of a real module against module TrackScales:  *)
(* per node the metrics RECORDED by the library (node.meta / ScalePair)    *)
(* versus integer sums CAPTURED independently on the un-instrumented graph *)
(* (forward values, and total gradients via retain_grad), plus the         *)
(* instrumentation rules and the bit-identity observations.                *)
(*  trace = [kind, same_out, same_grad, nodes]                             *)
(*  node  = [float, has, fwd, bwd, cf, cb]  (fwd/bwd recorded or absent;   *)
(*           cf/cb captured sums or absent).  Absent = [present |-> FALSE] *)
(*  recorded: [present, mean_abs, abs_mean, abs_max, abs_min, numel, vlo, vhi]  *)
(*            vlo/vhi = floor/ceil of std^2 * n(n-1) as computed from the       *)
(*            recorded (float32) std                                            *)
(*  captured: [present, n, sabs, ssum, ssq, amax, amin]                         *)
(*  kind "analyse": only std is recorded (utils.ScaleTracker)                   *)
(*  kind "track_real": values outside TLC's integers; fwd/bwd/cf/cb carry only  *)
(*            `present`, the numeric verdicts arrive as fwd_bad / bwd_bad ("" =  *)
(*            equal, otherwise the name of the first statistic that differs)     *)
(***************************************************************************)
EXTENDS TrackScales, Json, IOUtils
Traces == JsonDeserialize(IOEnv.TRACE_FILE)
N == Len(Traces)

StdOK(r, s) == s.n <= 1 \/
  LET ex == s.n * s.ssq - s.ssum * s.ssum   slack == 8 + ex \div 262144
  IN r.vlo - slack <= ex /\ ex <= r.vhi + slack
ExactOK(r, s) ==
  /\ r.numel = s.n
  /\ RatEq(<<r.mean_abs[1], r.mean_abs[2]>>, s.sabs, s.n)
  /\ RatEq(<<r.abs_mean[1], r.abs_mean[2]>>, Absv(s.ssum), s.n)
  /\ RatEq(<<r.abs_max[1], r.abs_max[2]>>, s.amax, 1)
  /\ RatEq(<<r.abs_min[1], r.abs_min[2]>>, s.amin, 1)
WhichWrong(r, s) ==
  IF r.numel # s.n THEN "numel"
  ELSE IF ~RatEq(<<r.mean_abs[1], r.mean_abs[2]>>, s.sabs, s.n) THEN "mean_abs"
  ELSE IF ~RatEq(<<r.abs_mean[1], r.abs_mean[2]>>, Absv(s.ssum), s.n) THEN "abs_mean"
  ELSE IF ~RatEq(<<r.abs_max[1], r.abs_max[2]>>, s.amax, 1) THEN "abs_max"
  ELSE IF ~RatEq(<<r.abs_min[1], r.abs_min[2]>>, s.amin, 1) THEN "abs_min"
  ELSE "std"

NodeVerdict(kind, n) ==
  IF n.has /\ ~n.float THEN "tracker_on_non_float_value"
  ELSE IF n.float /\ ~n.has THEN "float_tensor_not_tracked"
  ELSE IF ~n.float THEN "ok"
  ELSE IF ~n.cf.present THEN "harness_no_capture"
  ELSE IF kind = "track_real" THEN   \* non-integer data: the numeric comparison is done by the harness (float64 statistics of the captured tensor)
       IF n.fwd_bad # "" THEN "fwd_metric_wrong_" \o n.fwd_bad
       ELSE IF n.bwd.present /\ ~n.cb.present THEN "bwd_metrics_without_gradient"
       ELSE IF ~n.bwd.present /\ n.cb.present THEN "bwd_metrics_missing"
       ELSE IF n.bwd_bad # "" THEN "bwd_metric_not_total_gradient_" \o n.bwd_bad
       ELSE "ok"
  ELSE IF kind = "track" /\ ~ExactOK(n.fwd, n.cf) THEN "fwd_metric_wrong_" \o WhichWrong(n.fwd, n.cf)
  ELSE IF ~StdOK(n.fwd, n.cf) THEN "fwd_metric_wrong_std"
  ELSE IF n.bwd.present /\ ~n.cb.present THEN "bwd_metrics_without_gradient"
  ELSE IF ~n.bwd.present /\ n.cb.present THEN "bwd_metrics_missing"
  ELSE IF ~n.bwd.present THEN "ok"
  ELSE IF kind = "track" /\ ~ExactOK(n.bwd, n.cb) THEN "bwd_metric_not_total_gradient_" \o WhichWrong(n.bwd, n.cb)
  ELSE IF ~StdOK(n.bwd, n.cb) THEN "bwd_metric_not_total_gradient_std"
  ELSE "ok"

Verdict(t) ==
  IF ~t.same_out THEN <<0, "outputs_changed_by_tracking">>
  ELSE IF ~t.same_grad THEN <<0, "gradients_changed_by_tracking">>
  ELSE LET bad == {k \in 1 .. Len(t.nodes) : NodeVerdict(t.kind, t.nodes[k]) # "ok"} IN
       IF bad = {} THEN <<0, "ok">>
       ELSE LET k == CHOOSE x \in bad : \A y \in bad : x <= y IN <<k, NodeVerdict(t.kind, t.nodes[k])>>

VARIABLES l, fails
vars == <<l, fails>>
Init == l = 1 /\ fails = <<>>
Step == /\ l <= N
        /\ LET v == Verdict(Traces[l]) IN fails' = IF v[2] = "ok" \/ Len(fails) >= 50 THEN fails ELSE Append(fails, <<l, v[1], v[2]>>)
        /\ l' = l + 1
Finish == /\ l = N + 1
          /\ JsonSerialize(IOEnv.OUT_FILE, [fails |-> fails, drifts |-> <<>>, n |-> N, ev |-> N])
          /\ l' = N + 2 /\ UNCHANGED fails
Spec == Init /\ [][Step \/ Finish]_vars
=============================================================================
