CONSTANTS VecLen = 2  Legacy = {}  MaxOps = 2  NInputVecs = 2
SPECIFICATION Spec
INVARIANT C18Design
