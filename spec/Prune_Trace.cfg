CONSTANTS Legacy = {}
SPECIFICATION Spec
