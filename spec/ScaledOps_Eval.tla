----------------------------- MODULE ScaledOps_Eval -----------------------------
(* Direction A, point-wise: for harness-supplied configurations the spec's      *)
(*   kind "c03":  pinned Scale2 and term Count per slot (+ the UnitScale flag)   *)
(*   kind "c05":  symbolic constrained scale of every slot of (op, constraint)   *)
EXTENDS ScaledOps, Constraints, Json, IOUtils
Cases == JsonDeserialize(IOEnv.TRACE_FILE)
SetToSeq(S) == LET RECURSIVE F(_) F(T) == IF T = {} THEN <<>> ELSE LET x == CHOOSE y \in T : TRUE IN <<x>> \o F(T \ {x}) IN F(S)
C03(c) == [slots |-> [k \in 1 .. Cardinality(PinnedSlots(c)) |->
             LET sl == SetToSeq(PinnedSlots(c))[k]
             IN [slot |-> sl, scale2 |-> Scale2(c, sl), count |-> Count(c, sl), exception |-> Exception(c, sl), unit |-> UnitScale(c, sl)]],
           resid |-> ResidualWeights(c), readout |-> ReadoutOutput(c)]
\* expected scale expression of each slot of `op` under constraint `name` ("" = None)
C05(op, name) ==
  LET g == Group(op)  r == ApplySym(name, Len(g)) IN
  IF g = <<>> THEN [ok |-> FALSE, why |-> "op_takes_no_constraint", group |-> <<>>, expr |-> <<>>, fixed |-> SetToSeq(FixedGroup(op)), outside |-> SetToSeq((Slots(op) \cup {"out"}) \ FixedGroup(op))]
  ELSE IF r[1].k = "error" THEN [ok |-> FALSE, why |-> r[1].why, group |-> g, expr |-> <<>>, fixed |-> <<>>, outside |-> <<>>]
  ELSE [ok |-> TRUE, why |-> "", group |-> g, expr |-> r, fixed |-> <<>>,
        outside |-> SetToSeq(Slots(op) \ {g[k] : k \in 1 .. Len(g)})]
Means(sq) == LET s == [j \in 1 .. Len(sq) |-> <<sq[j][1], sq[j][2]>>] IN [h |-> HMean(s), a |-> AMean(s), gpow |-> GMeanPow(s), n |-> Len(s)]
Expect(k) == IF k.kind = "c03" THEN C03(k.c) ELSE IF k.kind = "mean" THEN Means(k.s) ELSE C05(k.op, k.name)
Out == [i \in 1 .. Len(Cases) |-> Expect(Cases[i])]
VARIABLE done
Init == done = FALSE
Next == ~done /\ JsonSerialize(IOEnv.OUT_FILE, [out |-> Out, n |-> Len(Cases)]) /\ done' = TRUE
Spec == Init /\ [][Next]_done
=============================================================================
