----------------------------- MODULE Constraints -----------------------------
(***************************************************************************)
(* unit_scaling.constraints over exact positive rationals (C05).           *)
(* A constraint maps the tuple (output scale, grad-input scales...) of an  *)
(* operation to ONE value used for every member of the tuple.              *)
(* The geometric mean is irrational in general; it is characterised by     *)
(* g^n = product, and compared through n-th powers.                        *)
(***************************************************************************)
EXTENDS Rat, Sequences, FiniteSets

MeanNames == {"gmean", "hmean", "amean"}
SelectNames == {"to_output_scale", "to_grad_input_scale", "to_left_grad_scale", "to_right_grad_scale"}
Names == MeanNames \cup SelectNames

RECURSIVE RSum(_), RProd(_)
RSum(s) == IF s = <<>> THEN <<0, 1>> ELSE RAdd(Head(s), RSum(Tail(s)))
RProd(s) == IF s = <<>> THEN ROne ELSE RMul(Head(s), RProd(Tail(s)))
RECURSIVE RPowN(_, _)
RPowN(a, n) == IF n = 0 THEN ROne ELSE RMul(a, RPowN(a, n - 1))
RInvSeq(s) == [k \in 1 .. Len(s) |-> RInv(s[k])]

AMean(s) == RDiv(RSum(s), RInt(Len(s)))
HMean(s) == RDiv(RInt(Len(s)), RSum(RInvSeq(s)))
GMeanPow(s) == RProd(s)                 \* = gmean(s)^Len(s)

\* arity each selection rule is defined for (number of scales)
ArityOK(name, n) ==
  IF name \in MeanNames THEN n >= 1
  ELSE IF name = "to_output_scale" THEN n >= 1
  ELSE IF name = "to_grad_input_scale" THEN n = 2
  ELSE n = 3
Selected(name, s) ==
  IF name = "to_output_scale" THEN s[1]
  ELSE IF name = "to_grad_input_scale" THEN s[2]
  ELSE IF name = "to_left_grad_scale" THEN s[2]
  ELSE s[3]

(* Symbolic result of apply_constraint, for scales that are arbitrary positive   *)
(* reals (the harness binds the symbols to what it observed without constraint): *)
(*   [k |-> "free", i |-> j]   the j-th unconstrained scale itself                *)
(*   [k |-> name, n |-> n]     the named mean of all n unconstrained scales       *)
(*   [k |-> "error", why |-> ...]                                                 *)
ApplySym(name, n) ==
  IF name = "" THEN [j \in 1 .. n |-> [k |-> "free", i |-> j]]       \* None or "": identity
  ELSE IF name \notin Names THEN <<[k |-> "error", why |-> "unknown_name"]>>
  ELSE IF ~ArityOK(name, n) THEN <<[k |-> "error", why |-> "arity"]>>
  ELSE IF name \in MeanNames THEN [j \in 1 .. n |-> [k |-> name, n |-> n]]
  ELSE [j \in 1 .. n |-> [k |-> "free", i |-> (CHOOSE q \in 1 .. n : Selected(name, [x \in 1 .. n |-> x]) = q)]]

Collapsed(res) == \A a, b \in 1 .. Len(res) : res[a] = res[b]
=============================================================================
