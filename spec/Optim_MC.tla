------------------------------ MODULE Optim_MC ------------------------------
(***************************************************************************)
(* Exhaustive exploration of module Optim on small constants.              *)
(*  Phase "lr"   (C10, C12): every (optimizer, readout, tag, shape, depth, *)
(*               lr given?, allow untagged?) as one state; the case        *)
(*               analysis is total, factors are positive, SGD without a    *)
(*               readout constraint equals Adam; C12 identity.             *)
(*  Phase "loop" (C11): scaled_parameters run step by step (one action per *)
(*               loop iteration) on every input with <= MaxGroups groups   *)
(*               of <= 2 parameters; order, aliasing, caller immutability. *)
(* Every terminal state is emitted as JSON (PrintT) so that the harness    *)
(* can replay it on the real code (direction A).                           *)
(***************************************************************************)
EXTENDS Optim, Json

CONSTANTS Phase, MaxGroups, Emit

Dims == {1, 2, 3, 16}
Shapes == {<<a>> : a \in Dims} \cup {<<a, b>> : a, b \in Dims} \cup {<<a, b, c>> : a, b, c \in Dims}
            \cup {<<2, 2, 2, 2>>, <<1, 3, 1, 2>>}
DepthsMC == {0, 1, 2, 9}

VARIABLES phase, c, inp, s
vars == <<phase, c, inp, s>>

NoCase == [opt |-> "", readout |-> "", tag |-> "", shape |-> <<>>, depth |-> 0, lrGiven |-> FALSE, allow |-> FALSE]
NoInp == [glr |-> 0, gwd |-> 0, indep |-> FALSE, allow |-> FALSE, groups |-> <<>>]
NoLoop == [g |-> 0, i |-> 0, res |-> <<>>, next |-> 0, err |-> "", touched |-> {}]

Init == phase = "start" /\ c = NoCase /\ inp = NoInp /\ s = NoLoop

\* ------------------------------------------------------------ phase "lr"
PickOpt == /\ Phase = "lr" /\ phase = "start"
           /\ \E o \in Optimizers, r \in Readouts, lg \in BOOLEAN, al \in BOOLEAN :
                c' = [NoCase EXCEPT !.opt = o, !.readout = r, !.lrGiven = lg, !.allow = al]
           /\ phase' = "opt" /\ UNCHANGED <<inp, s>>
PickParam == /\ phase = "opt"
             /\ \E t \in Tags \cup {""}, sh \in Shapes, d \in DepthsMC :
                  c' = [c EXCEPT !.tag = t, !.shape = sh, !.depth = d]
             /\ phase' = "case" /\ UNCHANGED <<inp, s>>

Outcome(k) == ParamOutcome(k.opt, k.readout, k.tag, k.shape, k.depth, k.lrGiven, k.allow)
ErrNames == {"lr_missing", "untagged", "fan_in_ndim"}
IsCase == phase = "case"

OutcomeTotal == IsCase => LET o == Outcome(c) IN
   IF o.ok THEN IsRat(o.f2) /\ o.f2[1] > 0 ELSE o.err \in ErrNames
ErrorsExactly == IsCase => LET o == Outcome(c) IN
   o.ok <=> (c.lrGiven /\ (c.tag # "" \/ c.allow) /\ ~(c.tag = "weight" /\ Len(c.shape) >= 4))
SgdNoneIsAdam == (IsCase /\ c.readout = "none") =>
   Outcome(c) = Outcome([c EXCEPT !.opt = "adam"])
AdamIgnoresReadout == (IsCase /\ c.opt # "sgd") => Outcome(c) = Outcome([c EXCEPT !.readout = "none"])
\* Adam weight factor * SGD(output-scaled) weight factor = 1/depth^2 : the two rules mirror each other
WeightRulesMirror == (IsCase /\ c.tag = "weight" /\ Outcome(c).ok) =>
   LET a == LrFactor2("adam", "none", "weight", c.shape, c.depth).f2
       g == LrFactor2("sgd", "to_output_scale", "weight", c.shape, c.depth).f2
   IN RMul(a, g) = RMul(DepthF2(c.depth), DepthF2(c.depth))
\* C12 in small: update size does not depend on width
WidthIndependent == (IsCase /\ c.tag = "weight" /\ Len(c.shape) \in {2, 3}) =>
   LET fo == c.shape[1]  fi == c.shape[2]  k == IF Len(c.shape) = 3 THEN c.shape[3] ELSE 1
   IN /\ UpdateSize2(IF Len(c.shape) = 3 THEN "conv1d" ELSE "linear", fi, fo, k, c.depth) = DepthF2(c.depth)
      /\ UpdateSize2("readout", fi, fo, 1, c.depth) = DepthF2(c.depth)

EmitCase == (IsCase /\ Emit) => PrintT(<<"CASE", ToJson([c |-> c, o |-> Outcome(c)])>>)

\* ---------------------------------------------------------- phase "loop"
ParamSets == {<<[id |-> 1, tagged |-> a]>> : a \in BOOLEAN}
               \cup {<<[id |-> 1, tagged |-> a], [id |-> 2, tagged |-> b]>> : a, b \in BOOLEAN}
Renumber(ps, base) == [k \in 1 .. Len(ps) |-> [ps[k] EXCEPT !.id = base + k]]
GroupsOf == [params : ParamSets, lr : {0, -1, 1, 2}, wd : {0, 1, 3}, keys : {{}, {"momentum"}}]   \* wd 1 is an explicit 0.0

PickCall == /\ Phase = "loop" /\ phase = "start"
            /\ \E gl \in {0, -1, 1}, iw \in BOOLEAN, al \in BOOLEAN :
                 inp' = [NoInp EXCEPT !.glr = gl, !.gwd = 2, !.indep = iw, !.allow = al]
            /\ phase' = "groups" /\ UNCHANGED <<c, s>>
AddGroup == /\ phase = "groups" /\ Len(inp.groups) < MaxGroups
            /\ \E g \in GroupsOf :
                 inp' = [inp EXCEPT !.groups = Append(@, [g EXCEPT !.params = Renumber(g.params, 2 * Len(inp.groups))])]
            /\ UNCHANGED <<phase, c, s>>
StartLoop == /\ phase = "groups" /\ Len(inp.groups) >= 1
             /\ phase' = "loop" /\ s' = LoopInit(inp) /\ UNCHANGED <<c, inp>>
Step == /\ phase = "loop" /\ ~LoopDone(inp, s)
        /\ s' = ProcessParam(inp, s) /\ UNCHANGED <<phase, c, inp>>
Finish == /\ phase = "loop" /\ LoopDone(inp, s)
          /\ phase' = "done" /\ UNCHANGED <<c, inp, s>>

Next == PickOpt \/ PickParam \/ PickCall \/ AddGroup \/ StartLoop \/ Step \/ Finish
Spec == Init /\ [][Next]_vars

IsDone == phase = "done"
LoopC11 == IsDone => C11OK(inp, s)
LoopMatchesRun == IsDone => s = Result(inp)          \* step-by-step = the recursive definition used for traces
LoopErrors == IsDone => (s.err # "" <=>
   \E g \in 1 .. Len(inp.groups) :
      /\ \A g2 \in 1 .. g - 1 : GroupLr(inp, g2) # 0 /\ (inp.allow \/ \A k \in 1 .. Len(inp.groups[g2].params) : inp.groups[g2].params[k].tagged)
      /\ (GroupLr(inp, g) = 0 \/ (~inp.allow /\ \E k \in 1 .. Len(inp.groups[g].params) : ~inp.groups[g].params[k].tagged)))
\* during the loop: results so far are a prefix of the input order (action-level view of "in input order, each once")
PrefixOrder == (phase \in {"loop", "done"} /\ s.err = "") =>
   LET ip == InputParams(inp) IN Len(s.res) <= Len(ip) /\ \A k \in 1 .. Len(s.res) : s.res[k].p = ip[k]
EmitLoop == (IsDone /\ Emit) => PrintT(<<"LOOP", ToJson([inp |-> inp, res |-> s.res, err |-> s.err])>>)
=============================================================================
