----------------------------- MODULE Prune_Trace -----------------------------
(***************************************************************************)
(* Validates runs of the real pruning helpers against module Prune.        *)
(* One trace = [h, rtol, targets, g, out, err, after]:                     *)
(*   g      the tracked input graph (projected), out the returned graph,   *)
(*   err    "" or the exception text, after the input graph after the call *)
(* Verdict (total): never raises; copying helpers leave the input graph    *)
(* unchanged; the result equals the spec's Run (nodes, order, every        *)
(* argument position); and the spec's result satisfies C19OK for this g.   *)
(***************************************************************************)
EXTENDS Prune, Json, IOUtils
Traces == JsonDeserialize(IOEnv.TRACE_FILE)
N == Len(Traces)

RECURSIVE ToArg(_)
ToArg(a) == IF a[1] = "l" THEN <<"l", [k \in 1 .. Len(a[2]) |-> ToArg(a[2][k])]>> ELSE <<a[1], a[2]>>
ToNode(n) == [id |-> n.id, op |-> n.op, tgt |-> n.tgt,
              args |-> [k \in 1 .. Len(n.args) |-> ToArg(n.args[k])],
              kw |-> [k \in 1 .. Len(n.kw) |-> <<n.kw[k][1], ToArg(n.kw[k][2])>>],
              float |-> n.float, fwd |-> <<n.fwd[1], n.fwd[2]>>, bwd |-> <<n.bwd[1], n.bwd[2]>>]
ToGraph(js) == [k \in 1 .. Len(js) |-> ToNode(js[k])]
Shape(g) == [k \in 1 .. Len(g) |-> <<g[k].id, g[k].tgt, g[k].args, g[k].kw>>]

Verdict(t) ==
  LET g == ToGraph(t.g)
      tg == {t.targets[k] : k \in 1 .. Len(t.targets)}
      r == Run(g, t.h, <<t.rtol[1], t.rtol[2]>>, tg)
  IN IF ~WellFormed(g) THEN "harness_input_graph_malformed"
     ELSE IF r.err # "" \/ ~C19OK(g, r, t.h, tg) THEN "spec_result_violates_C19"     \* a defect of the spec, not of the code
     ELSE IF t.err # "" THEN "helper_raised"
     ELSE IF t.h # "selected" /\ Shape(ToGraph(t.after)) # Shape(g) THEN "input_graph_mutated"
     ELSE LET out == ToGraph(t.out) IN
          IF ~WellFormed(out) THEN "result_not_well_formed"
          ELSE IF [k \in 1 .. Len(out) |-> out[k].id] # [k \in 1 .. Len(r.g) |-> r.g[k].id] THEN "wrong_nodes_or_order"
          ELSE IF Shape(out) # Shape(r.g) THEN "wrong_rewiring"
          ELSE "ok"

VARIABLES l, fails
vars == <<l, fails>>
Init == l = 1 /\ fails = <<>>
Step == /\ l <= N
        /\ LET v == Verdict(Traces[l]) IN fails' = IF v = "ok" \/ Len(fails) >= 50 THEN fails ELSE Append(fails, <<l, v>>)
        /\ l' = l + 1
Finish == /\ l = N + 1
          /\ JsonSerialize(IOEnv.OUT_FILE, [fails |-> fails, drifts |-> <<>>, n |-> N, ev |-> N])
          /\ l' = N + 2 /\ UNCHANGED fails
Spec == Init /\ [][Step \/ Finish]_vars
=============================================================================
