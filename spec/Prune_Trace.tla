----------------------------- MODULE Prune_Trace -----------------------------
(***************************************************************************)
(* Validates runs of the real pruning helpers against module Prune.        *)
(* One trace = [h, rtol, targets, g, out, err, after]:                     *)
(*   g      the tracked input graph (projected), out the returned graph,   *)
(*   err    "" or the exception text, after the input graph after the call *)
(* Verdict (total): never raises; copying helpers leave the input graph    *)
(* unchanged; the result equals the spec's Run (nodes, order, every        *)
(* argument position); and the spec's result satisfies C19OK for this g.   *)
(* h = "table" (growth item): analysis.graph_to_dataframe on the float-only *)
(* graph equals Prune!RowsOf of the spec's float-only graph.               *)
(***************************************************************************)
EXTENDS Prune, Json, IOUtils
Traces == JsonDeserialize(IOEnv.TRACE_FILE)
N == Len(Traces)

RECURSIVE ToArg(_)
ToArg(a) == IF a[1] = "l" THEN <<"l", [k \in 1 .. Len(a[2]) |-> ToArg(a[2][k])]>> ELSE <<a[1], a[2]>>
ToNode(n) == [id |-> n.id, op |-> n.op, tgt |-> n.tgt,
              args |-> [k \in 1 .. Len(n.args) |-> ToArg(n.args[k])],
              kw |-> [k \in 1 .. Len(n.kw) |-> <<n.kw[k][1], ToArg(n.kw[k][2])>>],
              float |-> n.float, req |-> n.req, fwd |-> <<n.fwd[1], n.fwd[2]>>, bwd |-> <<n.bwd[1], n.bwd[2]>>]
ToGraph(js) == [k \in 1 .. Len(js) |-> ToNode(js[k])]
Shape(g) == [k \in 1 .. Len(g) |-> <<g[k].id, g[k].tgt, g[k].args, g[k].kw>>]

\* h = "table": graph_to_dataframe(prune_non_float_tensors(g)); t.rows = [id, weight, dir, type, val, name_ok, others_ok]
\* (id: the node whose clean name the row carries; others_ok: the remaining metric columns equal the node's Metrics)
TableVerdict(t) ==
  LET g == ToGraph(t.g)
      r == Run(g, "non_float", <<0, 1>>, {})
      exp == RowsOf(r.g)
      bad(P(_, _)) == \E k \in 1 .. Len(exp) : ~P(t.rows[k], exp[k])
  IN IF ~WellFormed(g) THEN "harness_input_graph_malformed"
     ELSE IF r.err # "" THEN "spec_result_violates_C19"
     ELSE IF t.err # "" THEN "table_raised"
     ELSE IF Len(t.rows) # Len(exp) THEN "table_row_count"
     ELSE IF bad(LAMBDA o, e : o.id = e.id /\ o.name_ok) THEN "table_wrong_node_or_order"
     ELSE IF bad(LAMBDA o, e : o.dir = e.dir) THEN "table_direction"
     ELSE IF bad(LAMBDA o, e : o.weight = e.weight) THEN "table_weight_flag"
     ELSE IF bad(LAMBDA o, e : o.type = e.type) THEN "table_tensor_type"
     ELSE IF bad(LAMBDA o, e : <<o.val[1], o.val[2]>> = e.val) THEN "table_metric_value"
     ELSE IF bad(LAMBDA o, e : o.others_ok) THEN "table_other_metrics"
     ELSE "ok"

\* h = "chain": the pipeline of analysis.plot -- each helper applied to the RESULT of the previous one
ChainVerdict(t) ==
  LET g == ToGraph(t.g)
      tg == {t.targets[k] : k \in 1 .. Len(t.targets)}
      r1 == Run(g, "non_float", <<0, 1>>, {})
      r2 == Run(r1.g, "same_scale", <<t.rtol[1], t.rtol[2]>>, {})
      r3 == Run(r2.g, "selected", <<0, 1>>, tg)
  IN IF ~WellFormed(g) THEN "harness_input_graph_malformed"
     ELSE IF r1.err # "" \/ r2.err # "" \/ r3.err # "" THEN "spec_result_violates_C19"
     ELSE IF t.err # "" THEN "helper_raised"
     ELSE IF Shape(ToGraph(t.after)) # Shape(g) THEN "input_graph_mutated"
     ELSE LET out == ToGraph(t.out) IN
          IF ~WellFormed(out) THEN "result_not_well_formed"
          ELSE IF [k \in 1 .. Len(out) |-> out[k].id] # [k \in 1 .. Len(r3.g) |-> r3.g[k].id] THEN "wrong_nodes_or_order"
          ELSE IF Shape(out) # Shape(r3.g) THEN "wrong_rewiring"
          ELSE "ok"

Verdict(t) ==
  IF t.h = "table" THEN TableVerdict(t) ELSE IF t.h = "chain" THEN ChainVerdict(t) ELSE
  LET g == ToGraph(t.g)
      tg == {t.targets[k] : k \in 1 .. Len(t.targets)}
      r == Run(g, t.h, <<t.rtol[1], t.rtol[2]>>, tg)
  IN IF ~WellFormed(g) THEN "harness_input_graph_malformed"
     ELSE IF r.err # "" \/ ~C19OK(g, r, t.h, tg) THEN "spec_result_violates_C19"     \* a defect of the spec, not of the code
     ELSE IF t.err # "" THEN "helper_raised"
     ELSE IF t.h # "selected" /\ Shape(ToGraph(t.after)) # Shape(g) THEN "input_graph_mutated"
     ELSE LET out == ToGraph(t.out) IN
          IF ~WellFormed(out) THEN "result_not_well_formed"
          ELSE IF [k \in 1 .. Len(out) |-> out[k].id] # [k \in 1 .. Len(r.g) |-> r.g[k].id] THEN "wrong_nodes_or_order"
          ELSE IF Shape(out) # Shape(r.g) THEN "wrong_rewiring"
          ELSE "ok"

VARIABLES l, fails
vars == <<l, fails>>
Init == l = 1 /\ fails = <<>>
Step == /\ l <= N
        /\ LET v == Verdict(Traces[l]) IN fails' = IF v = "ok" \/ Len(fails) >= 50 THEN fails ELSE Append(fails, <<l, v>>)
        /\ l' = l + 1
Finish == /\ l = N + 1
          /\ JsonSerialize(IOEnv.OUT_FILE, [fails |-> fails, drifts |-> <<>>, n |-> N, ev |-> N])
          /\ l' = N + 2 /\ UNCHANGED fails
Spec == Init /\ [][Step \/ Finish]_vars
=============================================================================
