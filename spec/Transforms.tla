------------------------------ MODULE Transforms ------------------------------
(***************************************************************************)
(* unit_scaling.transforms.utils.apply_transform and friends (C17): a heap *)
(* of modules; module 1 is the user's original.                            *)
(*   module = [backends, rerun, cached, live, src, inited, calls]          *)
(*     backends  the module's backend list (kinds, in list order)          *)
(*     rerun     the lazy re-trace flag;  cached  the pipeline compiled by *)
(*               the last re-trace ("none" before the first call)          *)
(*     live      TorchDynamo still holds the code compiled for this module *)
(*               (a re-trace of ANY module calls torch._dynamo.reset(),    *)
(*               which is global: every other module's compiled code is    *)
(*               dropped and its next call re-traces with the pipeline it  *)
(*               holds)                                                    *)
(*     src       the module it was deep-copied from (0 for the original)   *)
(*     inited    weights re-initialised by unit_scale somewhere in lineage *)
(* Actions: Apply(kind, m): deep-copy m (fresh storage), append the        *)
(* backend, (unit_scale only) move the unit-scaling backend in front of    *)
(* the quantisation backend, set rerun;  Call(m): re-trace iff rerun, run  *)
(* this module's backends in list order, clear the flag.                   *)
(* kinds: "us" unit_scale, "q1"/"q2"/"q3" format simulations (different    *)
(* format pairs), "track", "compile".                                      *)
(***************************************************************************)
EXTENDS Integers, Sequences, FiniteSets, TLC

CONSTANT Legacy

QKinds == {"q1", "q2", "q3"}
LastKinds == {"track", "compile"}
Kinds == {"us"} \cup QKinds \cup LastKinds
Original == [backends |-> <<>>, rerun |-> FALSE, cached |-> <<"none">>, live |-> FALSE, src |-> 0, inited |-> FALSE, calls |-> 0]

IndexOf(s, P(_)) == LET hits == {i \in 1 .. Len(s) : P(s[i])} IN IF hits = {} THEN 0 ELSE CHOOSE i \in hits : \A j \in hits : i >= j   \* last match, as the loop keeps the last
\* _order_backends: if the (last) unit-scaling backend sits after the (last) quantisation backend, move it in front of it
OrderBackends(b) ==
  LET u == IndexOf(b, LAMBDA k : k = "us")   q == IndexOf(b, LAMBDA k : k \in QKinds) IN
  IF u = 0 \/ q = 0 \/ u < q \/ "no_reorder" \in Legacy THEN b
  ELSE LET without == [i \in 1 .. Len(b) - 1 |-> IF i < u THEN b[i] ELSE b[i + 1]]
       IN [i \in 1 .. Len(b) |-> IF i < q THEN without[i] ELSE IF i = q THEN "us" ELSE without[i - 1]]

ApplyTo(mods, m, kind) ==      \* the new module appended to the heap
  LET old == mods[m]
      b1 == Append(old.backends, kind)
      b2 == IF kind = "us" THEN OrderBackends(b1) ELSE b1
  IN Append(mods, [backends |-> b2,
                   rerun |-> IF "stale_cache" \in Legacy THEN old.cached = <<"none">> ELSE TRUE,
                   cached |-> old.cached,          \* deepcopy copies the cached forward by reference: it is STALE
                   live |-> IF "stale_cache" \in Legacy THEN old.live ELSE FALSE,
                   src |-> m, inited |-> old.inited \/ kind = "us", calls |-> 0])
\* Call returns [mods, ran]: the backends actually run by this call (empty when the cached pipeline is reused)
CallOn(mods, m) ==
  LET md == mods[m] IN
  IF md.backends = <<>> THEN [mods |-> [mods EXCEPT ![m].calls = @ + 1], ran |-> <<>>, eff |-> <<>>]
  ELSE IF md.rerun THEN       \* torch._dynamo.reset() is GLOBAL: nobody else's compiled code survives
       LET dropped == [i \in 1 .. Len(mods) |-> [mods[i] EXCEPT !.live = FALSE]]
       IN [mods |-> [dropped EXCEPT ![m].rerun = FALSE, ![m].cached = md.backends, ![m].live = TRUE, ![m].calls = @ + 1], ran |-> md.backends, eff |-> md.backends]
  ELSE IF md.live THEN [mods |-> [mods EXCEPT ![m].calls = @ + 1], ran |-> <<>>, eff |-> md.cached]
  ELSE [mods |-> [mods EXCEPT ![m].live = TRUE, ![m].calls = @ + 1], ran |-> md.cached, eff |-> md.cached]   \* re-trace after somebody else's reset

\* ---- what C17 demands
Applied(mods, m) == {mods[m].backends[i] : i \in 1 .. Len(mods[m].backends)}
\* the canonical pipeline of a set of transforms: unit scaling, then the format simulations in application order, then track/compile
EachOnce(b) == \A i, j \in 1 .. Len(b) : i # j => b[i] # b[j]
UsBeforeQ(b) == \A i, j \in 1 .. Len(b) : (b[i] = "us" /\ b[j] \in QKinds) => i < j
LastIsLast(b) == \A i \in 1 .. Len(b) : b[i] \in LastKinds => i = Len(b)
\* lineage: the transforms applied along the copy chain, in order
RECURSIVE Lineage(_, _)
Lineage(mods, m) == IF m = 1 THEN <<>> ELSE Append(Lineage(mods, mods[m].src), mods[m].backends[Len(mods[m].backends)])
=============================================================================
