CONSTANTS LayerSet <- AllLayers  MaxExplicit = 6  Legacy = {}
SPECIFICATION Spec
INVARIANT AlphaSplit
INVARIANT OneStep
INVARIANT TauPositive
INVARIANT Totals
INVARIANT Explicit
