CONSTANTS HE = 3  HM = 4  Legacy = {"no_bias_correction"}  Modes = {"stoch"}
SPECIFICATION Spec
INVARIANT StochNeighbourOK
INVARIANT StochFixedOK
INVARIANT StochMonotoneOK
INVARIANT StochCountValueOK
INVARIANT StochCountPatternOK
INVARIANT RangeOK
