CONSTANTS K = 3  Legacy = {"fewer_spellings"}
SPECIFICATION Spec
INVARIANT AlgoRefinesRecipe
