----------------------------- MODULE Optim_Eval -----------------------------
(* Point-wise evaluation of module Optim on cases supplied by the harness   *)
(* (large dims / depths beyond the exhaustive bound): direction A, the      *)
(* expectations come from the specification, the harness only compares.     *)
EXTENDS Optim, Json, IOUtils

Cases == JsonDeserialize(IOEnv.TRACE_FILE)
Expect(k) ==
  IF k.kind = "lr" THEN ParamOutcome(k.opt, k.readout, k.tag, k.shape, k.depth, k.lrGiven, k.allow)
  ELSE IF k.kind = "update" THEN [ok |-> TRUE, f2 |-> UpdateSize2(k.layer, k.fanIn, k.fanOut, k.k, k.depth)]
  ELSE IF k.kind = "loop" THEN
    LET inp == [glr |-> k.glr, gwd |-> k.gwd, indep |-> k.indep, allow |-> k.allow,
                groups |-> [g \in 1 .. Len(k.groups) |->
                   [params |-> k.groups[g].params, lr |-> k.groups[g].lr, wd |-> k.groups[g].wd,
                    keys |-> {k.groups[g].keys[j] : j \in 1 .. Len(k.groups[g].keys)}]]]
        r == Result(inp)
    IN [ok |-> r.err = "", err |-> r.err, res |-> r.res, c11 |-> C11OK(inp, r)]
  ELSE IF k.kind = "decay" THEN [ok |-> TRUE, f2 |-> DecayFactor(R(k.wd[1], k.wd[2]), k.steps)]
  ELSE [ok |-> FALSE, err |-> "unknown_kind"]
Out == [i \in 1 .. Len(Cases) |-> Expect(Cases[i])]

VARIABLE done
Init == done = FALSE
Next == ~done /\ JsonSerialize(IOEnv.OUT_FILE, [out |-> Out, n |-> Len(Cases)]) /\ done' = TRUE
Spec == Init /\ [][Next]_done
=============================================================================
