SPECIFICATION Spec
