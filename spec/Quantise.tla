------------------------------ MODULE Quantise ------------------------------
(***************************************************************************)
(* Bit-level model of unit_scaling.formats.FPFormat.quantise on a          *)
(* parameterised binary host float (HE exponent bits, HM mantissa bits;    *)
(* float32 is HE = 8, HM = 23), plus a declarative statement of what       *)
(* "nearest" / "stochastic" rounding must return.                          *)
(*                                                                         *)
(* State of one call: a host magnitude pattern p (sign handled apart: the  *)
(* int32 add/mask trick acts on the magnitude bits only), a target format  *)
(* (E, M), and for stochastic rounding a random draw r in 0..2^srbits-1.   *)
(* Steps of the algorithm, one operator each, in the order of the code:    *)
(*   Clip   : min(p, PMax)                                                 *)
(*   Down   : divide by 2^(HB - 2^(E-1)), RNE into host subnormals         *)
(*   AddMask: add offset to the pattern, clear the low HM-M bits           *)
(*   Up     : multiply back                                                *)
(* All numbers stay below 2^31 for host (8,23).                            *)
(***************************************************************************)
EXTENDS Integers, Sequences

CONSTANTS HE, HM

HB == 2^(HE-1) - 1                      \* host bias
Pow2(k) == 2^k
ExpF(p) == p \div Pow2(HM)              \* exponent field of a magnitude pattern
Man(p)  == p % Pow2(HM)
InfPat  == (Pow2(HE) - 1) * Pow2(HM)    \* +inf
FinitePats == 0 .. InfPat - 1

\* x >> k with round-to-nearest-even (k >= 0); x < 2^(HM+1)
ShiftRNE(x, k) ==
  IF k = 0 THEN x
  ELSE IF k > HM + 2 THEN 0
  ELSE LET d == Pow2(k)  q == x \div d  r == x % d  h == d \div 2
       IN IF r > h \/ (r = h /\ q % 2 = 1) THEN q + 1 ELSE q

(***************************************************************************)
(* Target format (E, M): exponent codes 1..2^E-1 are normals with exponent *)
(* code - 2^(E-1) (so max exponent 2^(E-1)-1, min normal exponent          *)
(* 1-2^(E-1)), code 0 is subnormal with spacing 2^(1-2^(E-1)-M).           *)
(***************************************************************************)
EMax(E) == 2^(E-1) - 1
PMax(E, M) == (EMax(E) + HB) * Pow2(HM) + (Pow2(M) - 1) * Pow2(HM - M)   \* host pattern of max
PMinNormal(E) == (HB + 1 - 2^(E-1))                                       \* exponent field (may be <= 0)
D(E) == HB - 2^(E-1)                    \* log2 of the downscale (is -1 for E = HE)

-----------------------------------------------------------------------------
(* The algorithm, as the code performs it *)

Clip(E, M, p) == IF p > PMax(E, M) THEN PMax(E, M) ELSE p

Down(E, p) ==
  LET e == ExpF(p)  m == Man(p)  d == D(E) IN
  IF d < 0 THEN (IF e = 0 THEN 2 * p ELSE p + Pow2(HM))       \* multiply by 2
  ELSE IF e = 0 THEN ShiftRNE(m, d)
  ELSE IF e - d >= 1 THEN p - d * Pow2(HM)
  ELSE ShiftRNE(Pow2(HM) + m, 1 - (e - d))

RECURSIVE Norm(_, _)
Norm(mm, sh) == IF mm >= Pow2(HM) THEN <<mm, sh>> ELSE Norm(mm * 2, sh + 1)

Up(E, p) ==
  LET d == D(E) IN
  IF p = 0 THEN 0
  ELSE IF d < 0 THEN (IF ExpF(p) <= 1 THEN p \div 2 ELSE p - Pow2(HM))
  ELSE IF ExpF(p) >= 1 THEN p + d * Pow2(HM)
  ELSE LET ns == Norm(p, 0)  e2 == 1 - ns[2] + d
       IN IF e2 >= 1 THEN e2 * Pow2(HM) + (ns[1] - Pow2(HM)) ELSE ShiftRNE(ns[1], 1 - e2)

AddMask(M, off, p) == LET S == Pow2(HM - M) IN ((p + off) \div S) * S

QMag(E, M, off, p) == Up(E, AddMask(M, off, Down(E, Clip(E, M, p))))

OffNearest(M) == (Pow2(HM - M) - 1) \div 2
\* stochastic: srbits random bits placed at the top of the discarded bits,
\* plus half a step of bias correction when fewer than all bits are drawn
OffStoch(M, s, r) ==
  LET sbar == HM - M - s IN r * Pow2(sbar) + (IF sbar > 0 THEN Pow2(sbar - 1) ELSE 0)

-----------------------------------------------------------------------------
(* Declarative side, in aligned pattern coordinates.                       *)
(* ExactQuot(E,p) = <<q, r, k>>: p / 2^D(E) = pattern q + r/2^k exactly    *)
(* (k = 0 means exact).  Inside [lo, hi] (consecutive multiples of         *)
(* S = 2^(HM-M)) pattern distance is proportional to value distance, since *)
(* a binade boundary is itself a multiple of S.                            *)

ExactQuot(E, p) ==
  LET e == ExpF(p)  m == Man(p)  d == D(E) IN
  IF d < 0 THEN <<(IF e = 0 THEN 2 * p ELSE p + Pow2(HM)), 0, 0>>
  ELSE IF e = 0 THEN (IF d > HM THEN <<0, m, d>> ELSE <<m \div Pow2(d), m % Pow2(d), d>>)
  ELSE IF e - d >= 1 THEN <<p - d * Pow2(HM), 0, 0>>
  ELSE LET k == 1 - (e - d)  x == Pow2(HM) + m
       IN IF k > HM + 1 THEN <<0, x, k>> ELSE <<x \div Pow2(k), x % Pow2(k), k>>

\* 2*rem compared with 2^k without overflowing 32 bits (rem < 2^(HM+1))
TwoRemLeq(rem, k) == IF k > HM + 2 THEN TRUE  ELSE 2 * rem <= Pow2(k)
TwoRemGeq(rem, k) == IF k > HM + 2 THEN FALSE ELSE 2 * rem >= Pow2(k)

Lo(M, q) == LET S == Pow2(HM - M) IN (q \div S) * S
OnGrid(M, eq) == eq[2] = 0 /\ eq[1] % Pow2(HM - M) = 0

\* res (a host pattern) is exactly the value of downscaled pattern t
IsUpOf(E, res, t) == ExactQuot(E, res) = <<t, 0, ExactQuot(E, res)[3]>> /\ ExactQuot(E, res)[2] = 0

\* "one of the two representable neighbours of the clamped input"
Neighbour(E, M, p, res) ==
  LET eq == ExactQuot(E, Clip(E, M, p))  S == Pow2(HM - M)  lo == Lo(M, eq[1])
  IN IF OnGrid(M, eq) THEN IsUpOf(E, res, eq[1])
     ELSE IsUpOf(E, res, lo) \/ IsUpOf(E, res, lo + S)

\* "no farther from it than the nearer neighbour plus 2^(M-HM) of the local spacing"
\* (= one pattern unit in the downscaled domain)
Nearest(E, M, p, res) ==
  LET eq == ExactQuot(E, Clip(E, M, p))  S == Pow2(HM - M)
      q == eq[1]  rem == eq[2]  k == eq[3]
      lo == Lo(M, q)  hi == lo + S  mid == lo + S \div 2
  IN IF OnGrid(M, eq) THEN IsUpOf(E, res, q)
     ELSE IF S = 1 THEN IsUpOf(E, res, q) \/ IsUpOf(E, res, q + 1)   \* tolerance = whole spacing
     ELSE \/ IsUpOf(E, res, lo) /\ (q < mid \/ (q = mid /\ TwoRemLeq(rem, k)))
          \/ IsUpOf(E, res, hi) /\ (q >= mid \/ (q = mid - 1 /\ TwoRemGeq(rem, k)))

\* saturation: beyond the range the result is exactly max
Saturates(E, M, p, res) == p >= PMax(E, M) => res = PMax(E, M)

\* result is representable: on the grid and within range
Representable(E, M, res) ==
  /\ res <= PMax(E, M)
  /\ LET eq == ExactQuot(E, res) IN eq[2] = 0 /\ eq[1] % Pow2(HM - M) = 0

(***************************************************************************)
(* Stochastic rounding: the count of draws that round away from zero.      *)
(* With a == (float32 prescaled pattern) mod S the code rounds up for      *)
(* exactly  round_half_up(a / 2^sbar)  of the 2^s draws.  The property:    *)
(*   count / 2^s = a / S            when s = HM-M and the prescale is exact *)
(*   |count/2^s - pos| <= 2^-(s+1) (+ 2^-(HM-M+1) when the float32         *)
(*   prescale itself had to round; the same slack C13 grants)              *)
(* pos = ((q - lo) + rem/2^k) / S  is the true fractional position.        *)
(* Everything is compared after multiplying through by 2*S*2^k' where the  *)
(* remainder is first reduced to "below / at / above half" (3 cases), so   *)
(* numbers stay < 2^31.                                                    *)
(***************************************************************************)
\* position numerator in half pattern units, bracketed: true 2*(q-lo)+2rem/2^k lies in [PosLo2, PosHi2]
PosLo2(M, eq) == 2 * (eq[1] - Lo(M, eq[1])) + (IF eq[2] = 0 THEN 0 ELSE IF TwoRemGeq(eq[2], eq[3]) THEN 1 ELSE 0)
PosHi2(M, eq) == 2 * (eq[1] - Lo(M, eq[1])) + (IF eq[2] = 0 THEN 0 ELSE IF TwoRemLeq(eq[2], eq[3]) THEN 1 ELSE 2)

\* count * 2S/2^s  within  [PosLo2 - slack2, PosHi2 + slack2], slack2 = S/2^s (+1 if prescale inexact)
CountOK(E, M, s, p, count) ==
  LET eq == ExactQuot(E, Clip(E, M, p))  S == Pow2(HM - M)  sb == HM - M - s
      c2 == count * 2 * Pow2(sb)             \* count/2^s in half pattern units * S
      slack == (IF sb > 0 THEN Pow2(sb) ELSE 0) + (IF eq[2] = 0 THEN 0 ELSE 1)
  IN /\ count \in 0 .. Pow2(s)
     /\ c2 >= PosLo2(M, eq) - slack
     /\ c2 <= PosHi2(M, eq) + slack
     /\ (sb = 0 /\ eq[2] = 0) => c2 = PosLo2(M, eq)
     /\ OnGrid(M, eq) => count = 0

=============================================================================
