CONSTANTS HE = 8  HM = 23
SPECIFICATION Spec
