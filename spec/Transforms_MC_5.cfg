CONSTANTS Legacy = {}  MaxMods = 5  MaxCalls = 4
SPECIFICATION Spec
INVARIANT OriginalUntouched
INVARIANT PipelineCanonical
INVARIANT EffectiveIsOwn
INVARIANT OrderIndependent
INVARIANT RerunIsOwn
INVARIANT LiveIsOwn
PROPERTY NoRerunOnRepeat
