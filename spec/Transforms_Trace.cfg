CONSTANTS Legacy = {}
SPECIFICATION Spec
