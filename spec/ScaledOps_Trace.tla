---------------------------- MODULE ScaledOps_Trace ----------------------------
(***************************************************************************)
(* Validates the call log recorded from the real unit_scaling.functional    *)
(* (and from its torch.compile / fx executions) against module ScaledOps:   *)
(* the memo machine (one factor class per (configuration, slot), whatever   *)
(* the data draw, upstream gradient, repetition or execution mode), the     *)
(* exact-1 ops, result shape/dtype, argument immutability, and rejection of *)
(* unsupported arguments.  Events of one configuration are contiguous and   *)
(* configuration ids never decrease, so the memo is kept per configuration. *)
(*   event = <<etype, op, cfg, slot, cls, f1, f2, f3, f4, f5, f6, expect>>   *)
(*   etype "fwd": f = shape ok, dtype ok, inputs unmodified, scalar multiple,*)
(*                    factor positive, factor equals 1 (within tolerance)    *)
(*   etype "bwd": f = grad shape ok, grad dtype ok, -, scalar multiple,      *)
(*                    factor positive, -                                     *)
(*   etype "err": f1 = the call raised; expect = "" (must not raise) or the  *)
(*                    reason it must be rejected                             *)
(***************************************************************************)
EXTENDS ScaledOps, Json, IOUtils

Trace == JsonDeserialize(IOEnv.TRACE_FILE)
N == Len(Trace)
VARIABLES l, memo, cur, fails
vars == <<l, memo, cur, fails>>

ErrVerdict(ev) ==
  LET op == ev[2]  raised == ev[6] = 1  why == ev[12] IN
  IF why = "" THEN (IF raised THEN "unexpected_error" ELSE "ok")
  ELSE IF why = "unsupported" THEN                    \* ev[4] names the argument given a non-default value
         (IF ev[4] \notin UnsupportedArgs(op) THEN "harness_expectation_not_in_spec"
          ELSE IF ~raised THEN "unsupported_arg_accepted" ELSE "ok")
  ELSE IF ~raised THEN "error_not_raised_" \o why ELSE "ok"

Verdict(ev, m) ==
  LET et == ev[1]  op == ev[2]  slot == ev[4]  cls == ev[5] IN
  IF op \notin Ops THEN "unknown_op"
  ELSE IF et = "err" THEN ErrVerdict(ev)
  ELSE IF et = "fwd" THEN
    IF ev[6] # 1 THEN "shape" ELSE IF ev[7] # 1 THEN "dtype" ELSE IF ev[8] # 1 THEN "input_modified"
    ELSE IF ev[9] # 1 THEN "not_a_scalar_multiple" ELSE IF ev[10] # 1 THEN "factor_not_positive"
    ELSE IF op \in Exact1Ops /\ ev[11] # 1 THEN "not_exactly_1"
    ELSE IF ~Observe(m, <<ev[3], "out">>, cls).ok THEN "data_dependent_or_mode_dependent_factor"
    ELSE "ok"
  ELSE IF et = "bwd" THEN
    IF slot \notin Slots(op) THEN "unknown_slot"
    ELSE IF ev[6] # 1 THEN "grad_shape" ELSE IF ev[7] # 1 THEN "grad_dtype"
    ELSE IF ev[9] # 1 THEN "grad_not_a_scalar_multiple" ELSE IF ev[10] # 1 THEN "grad_factor_not_positive"
    ELSE IF ~Observe(m, <<ev[3], slot>>, cls).ok THEN "grad_factor_varies"
    ELSE "ok"
  ELSE "unknown_event"

Init == l = 1 /\ memo = [k \in {} |-> 0] /\ cur = -1 /\ fails = <<>>
Step == /\ l <= N
        /\ LET ev == Trace[l]
               m == IF ev[3] = cur THEN memo ELSE [k \in {} |-> 0]
               v == IF ev[3] < cur THEN "events_out_of_order" ELSE Verdict(ev, m)
               key == <<ev[3], IF ev[1] = "fwd" THEN "out" ELSE ev[4]>>
           IN /\ fails' = IF v = "ok" \/ Len(fails) >= 60 THEN fails ELSE Append(fails, <<l, v>>)
              /\ memo' = IF ev[1] \in {"fwd", "bwd"} THEN Observe(m, key, ev[5]).memo ELSE m
              /\ cur' = ev[3]
        /\ l' = l + 1
Finish == /\ l = N + 1
          /\ JsonSerialize(IOEnv.OUT_FILE, [fails |-> fails, drifts |-> <<>>, n |-> N, ev |-> N])
          /\ l' = N + 2 /\ UNCHANGED <<memo, cur, fails>>
Spec == Init /\ [][Step \/ Finish]_vars
=============================================================================
