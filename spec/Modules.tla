------------------------------- MODULE Modules -------------------------------
(***************************************************************************)
(* The public unit-scaled modules (C08) as a table: for every leaf module  *)
(* its constructor options (each over its valid values and, where the      *)
(* library declares an argument unsupported, one invalid value), the       *)
(* functional op it must equal, the ARGUMENT MAPPING (which option /       *)
(* parameter / mode feeds which functional argument), the u-muP tag and    *)
(* initial-value class of every parameter.  Values are strings decoded by  *)
(* the harness ("None", "True", "0.5", "'gmean'" ...).                     *)
(*   src kinds: "input" the call argument, "opt" a constructor option,     *)
(*   "param" a module parameter (None when absent), "mode" self.training,  *)
(*   "padded" the input padded by F.pad for non-zero padding modes,        *)
(*   "padopt" the padding option, or 0 when the input was padded already   *)
(***************************************************************************)
EXTENDS Integers, Sequences, FiniteSets, TLC

BinaryC == {"None", "'gmean'", "'hmean'", "'amean'", "'to_output_scale'", "'to_grad_input_scale'"}
Tags == {"weight", "bias", "norm", "output"}
A(arg, kind, name) == <<arg, kind, name>>

LeafModules == {"GELU", "SiLU", "Softmax", "Dropout", "Linear", "LinearReadout", "Conv1d", "LayerNorm", "RMSNorm", "Embedding", "CrossEntropyLoss"}

Opts(m) ==
  IF m = "GELU" THEN [mult |-> {"1.0", "0.25", "3.0"}, constraint |-> BinaryC, approximate |-> {"'none'", "'tanh'"}]
  ELSE IF m = "SiLU" THEN [mult |-> {"1.0", "0.25", "3.0"}, constraint |-> BinaryC, inplace |-> {"False", "True"}]
  ELSE IF m = "Softmax" THEN [dim |-> {"-1", "0", "1"}, mult |-> {"1.0", "0.25"}, constraint |-> BinaryC]
  ELSE IF m = "Dropout" THEN [p |-> {"0.0", "0.25", "0.5"}, inplace |-> {"False", "True"}]
  ELSE IF m \in {"Linear", "LinearReadout"} THEN [in_features |-> {"3", "8"}, out_features |-> {"1", "5"}, bias |-> {"False", "True"}, constraint |-> BinaryC,
                                                        weight_mup_type |-> {"'weight'", "'bias'", "'norm'", "'output'"}]   \* the learning-rate tag of the weight: NOT the scaling rule
  ELSE IF m = "Conv1d" THEN [in_channels |-> {"4"}, out_channels |-> {"2", "6"}, kernel_size |-> {"1", "3"}, stride |-> {"1", "2"}, padding |-> {"0", "2"},
                             dilation |-> {"1", "2"}, groups |-> {"1", "2"}, bias |-> {"False", "True"},
                             padding_mode |-> {"'zeros'", "'reflect'", "'replicate'", "'circular'"}, constraint |-> {"None", "'gmean'", "'to_output_scale'", "'to_grad_input_scale'"}]
  ELSE IF m = "LayerNorm" THEN [normalized_shape |-> {"8", "(4, 8)"}, eps |-> {"1e-05", "0.001", "0.0"}, elementwise_affine |-> {"False", "True"}, bias |-> {"True", "False"}]
  ELSE IF m = "RMSNorm" THEN [normalized_shape |-> {"8", "(4, 8)"}, eps |-> {"1e-05", "0.001", "0.0"}, elementwise_affine |-> {"False", "True"}]   \* eps = 0.0 is a valid value, not "unset"
  ELSE IF m = "Embedding" THEN [num_embeddings |-> {"7"}, embedding_dim |-> {"4"}, padding_idx |-> {"None", "0", "-1"}, max_norm |-> {"None", "1.0"},
                                scale_grad_by_freq |-> {"False", "True"}, sparse |-> {"False", "True"}]
  ELSE [mult |-> {"1.0", "0.5"}, ignore_index |-> {"-100", "1"}, reduction |-> {"'mean'", "'sum'"}, label_smoothing |-> {"0.0", "0.1"}, size_average |-> {"None", "True", "False"}]

\* (option, value) pairs that must be rejected at construction
Rejected(m) ==
  IF m \in {"SiLU", "Dropout"} THEN {<<"inplace", "True">>}
  ELSE IF m = "Embedding" THEN {<<"scale_grad_by_freq", "True">>, <<"sparse", "True">>}
  ELSE IF m = "CrossEntropyLoss" THEN {<<"label_smoothing", "0.1">>, <<"size_average", "True">>, <<"size_average", "False">>}   \* False (default None) is a request too
  ELSE {}
Accepts(m, cfg) == \A p \in Rejected(m) : cfg[p[1]] # p[2]

Func(m) ==
  IF m = "GELU" THEN "gelu" ELSE IF m = "SiLU" THEN "silu" ELSE IF m = "Softmax" THEN "softmax" ELSE IF m = "Dropout" THEN "dropout"
  ELSE IF m = "Linear" THEN "linear" ELSE IF m = "LinearReadout" THEN "linear_readout" ELSE IF m = "Conv1d" THEN "conv1d"
  ELSE IF m = "LayerNorm" THEN "layer_norm" ELSE IF m = "RMSNorm" THEN "rms_norm" ELSE IF m = "Embedding" THEN "embedding" ELSE "cross_entropy"

ArgMap(m) ==
  IF m = "GELU" THEN <<A("input", "input", ""), A("mult", "opt", "mult"), A("approximate", "opt", "approximate"), A("constraint", "opt", "constraint")>>
  ELSE IF m = "SiLU" THEN <<A("input", "input", ""), A("mult", "opt", "mult"), A("constraint", "opt", "constraint"), A("inplace", "opt", "inplace")>>
  ELSE IF m = "Softmax" THEN <<A("input", "input", ""), A("dim", "opt", "dim"), A("mult", "opt", "mult"), A("constraint", "opt", "constraint")>>
  ELSE IF m = "Dropout" THEN <<A("input", "input", ""), A("p", "opt", "p"), A("training", "mode", ""), A("inplace", "opt", "inplace")>>
  ELSE IF m \in {"Linear", "LinearReadout"} THEN <<A("input", "input", ""), A("weight", "param", "weight"), A("bias", "param", "bias"), A("constraint", "opt", "constraint")>>
  ELSE IF m = "Conv1d" THEN <<A("input", "padded", ""), A("weight", "param", "weight"), A("bias", "param", "bias"), A("stride", "opt", "stride"), A("padding", "padopt", "padding"),
                              A("dilation", "opt", "dilation"), A("groups", "opt", "groups"), A("constraint", "opt", "constraint")>>
  ELSE IF m = "LayerNorm" THEN <<A("input", "input", ""), A("normalized_shape", "opt", "normalized_shape"), A("weight", "param", "weight"), A("bias", "param", "bias"), A("eps", "opt", "eps")>>
  ELSE IF m = "RMSNorm" THEN <<A("input", "input", ""), A("normalized_shape", "opt", "normalized_shape"), A("weight", "param", "weight"), A("eps", "opt", "eps")>>
  ELSE IF m = "Embedding" THEN <<A("input", "input", ""), A("weight", "param", "weight"), A("padding_idx", "opt", "padding_idx"), A("max_norm", "opt", "max_norm"),
                                 A("scale_grad_by_freq", "opt", "scale_grad_by_freq"), A("sparse", "opt", "sparse")>>
  ELSE <<A("input", "input", ""), A("target", "input", "target"), A("ignore_index", "opt", "ignore_index"), A("reduction", "opt", "reduction"),
         A("label_smoothing", "opt", "label_smoothing"), A("mult", "opt", "mult")>>

\* parameters present for a configuration: <<name, tag, init class>>
TagOf(v) == IF v = "'weight'" THEN "weight" ELSE IF v = "'bias'" THEN "bias" ELSE IF v = "'norm'" THEN "norm" ELSE "output"
Params(m, cfg) ==
  IF m = "Conv1d" THEN <<<<"weight", "weight", "normal">>>> \o (IF cfg.bias = "True" THEN <<<<"bias", "bias", "zeros">>>> ELSE <<>>)
  \* the requested tag decides the weight's learning-rate rule only; the function computed (Func) is the class's, whatever the tag
  ELSE IF m \in {"Linear", "LinearReadout"} THEN <<<<"weight", TagOf(cfg.weight_mup_type), "normal">>>> \o (IF cfg.bias = "True" THEN <<<<"bias", "bias", "zeros">>>> ELSE <<>>)
  ELSE IF m = "LayerNorm" THEN IF cfg.elementwise_affine = "True" THEN <<<<"weight", "norm", "ones">>>> \o (IF cfg.bias = "True" THEN <<<<"bias", "bias", "zeros">>>> ELSE <<>>) ELSE <<>>
  ELSE IF m = "RMSNorm" THEN IF cfg.elementwise_affine = "True" THEN <<<<"weight", "norm", "ones">>>> ELSE <<>>
  ELSE IF m = "Embedding" THEN <<<<"weight", "weight", "normal">>>>
  ELSE <<>>

\* ---- well-formedness of the table: every option is forwarded, or consumed by construction (sizes / presence of a parameter), or rejected
ShapeOptions == {"in_features", "out_features", "in_channels", "out_channels", "kernel_size", "num_embeddings", "embedding_dim", "bias", "elementwise_affine", "padding_mode", "size_average", "weight_mup_type"}
Forwarded(m) == {ArgMap(m)[k][3] : k \in {j \in 1 .. Len(ArgMap(m)) : ArgMap(m)[j][2] \in {"opt", "padopt"}}}
HonouredOrRejected(m) == \A o \in DOMAIN Opts(m) : o \in Forwarded(m) \/ o \in ShapeOptions
TagsKnown(m, cfg) == \A k \in 1 .. Len(Params(m, cfg)) : Params(m, cfg)[k][2] \in Tags

\* depth containers: Wrap tags every parameter with depth = number of children; refuses untagged parameters and re-wrapping
Wrap(children) ==      \* children: sequence of [tagged |-> BOOLEAN, depth |-> Nat (0 = None)]
  IF \E k \in 1 .. Len(children) : ~children[k].tagged THEN [ok |-> FALSE, why |-> "untagged"]
  ELSE IF \E k \in 1 .. Len(children) : children[k].depth # 0 THEN [ok |-> FALSE, why |-> "already_has_depth"]
  ELSE [ok |-> TRUE, depth |-> Len(children)]
=============================================================================
