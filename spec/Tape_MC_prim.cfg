CONSTANTS Legacy = {}  Phase = "prim"  MaxLen = 3  MaxNodes = 0  Emit = TRUE
SPECIFICATION Spec
INVARIANT ChainOK
INVARIANT EmitChain
