CONSTANTS Legacy = {}  Phase = "resid"  MaxLen = 0  MaxNodes = 8  Emit = TRUE
SPECIFICATION Spec
INVARIANT ResidOK
INVARIANT TauSquares
INVARIANT EmitProg
