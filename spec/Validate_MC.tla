----------------------------- MODULE Validate_MC -----------------------------
EXTENDS Validate, Json
CONSTANT Emit
Sig == <<[name |-> "input", hasDefault |-> FALSE], [name |-> "mult", hasDefault |-> TRUE], [name |-> "flag", hasDefault |-> TRUE], [name |-> "mode", hasDefault |-> TRUE]>>
Vals == {"default", "other", "falsy"}
VARIABLES unsupported, npos, pos, kw, phase
vars == <<unsupported, npos, pos, kw, phase>>
Init == unsupported = {} /\ npos = 0 /\ pos = <<>> /\ kw = [x \in {} |-> ""] /\ phase = "u"
PickU == phase = "u" /\ unsupported' \in SUBSET {"flag", "mode"} /\ phase' = "p" /\ UNCHANGED <<npos, pos, kw>>
PickPos == phase = "p" /\ \E k \in 1 .. Len(Sig) : \E vs \in [1 .. k -> Vals] : pos' = vs /\ npos' = k /\ phase' = "k" /\ UNCHANGED <<unsupported, kw>>
PickKw == phase = "k" /\ \E S \in SUBSET {Sig[k].name : k \in npos + 1 .. Len(Sig)} : \E f \in [S -> Vals] : kw' = f /\ phase' = "done" /\ UNCHANGED <<unsupported, npos, pos>>
Spec == Init /\ [][PickU \/ PickPos \/ PickKw]_vars
Done == phase = "done"
RejectExactly == Done => (Rejects(Sig, unsupported, pos, kw) <=> MustReject(Sig, unsupported, pos, kw))
DecorationOK == DecorateOK(Sig, {"flag", "mode"}) /\ ~DecorateOK(Sig, {"input"}) /\ ~DecorateOK(Sig, {"nonexistent"})
EmitCall == (Done /\ Emit) => PrintT(<<"VCALL", ToJson([unsupported |-> unsupported, pos |-> pos, kw |-> kw, reject |-> MustReject(Sig, unsupported, pos, kw)])>>)
=============================================================================
