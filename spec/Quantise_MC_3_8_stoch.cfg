CONSTANTS HE = 3  HM = 8  Legacy = {}  Modes = {"stoch"}
SPECIFICATION Spec
INVARIANT StochNeighbourOK
INVARIANT StochFixedOK
INVARIANT StochMonotoneOK
INVARIANT StochCountValueOK
INVARIANT StochCountPatternOK
INVARIANT RangeOK
