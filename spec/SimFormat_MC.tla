---------------------------- MODULE SimFormat_MC ----------------------------
(* All graphs with <= MaxOps op nodes over the quantifier's vocabulary of call styles. *)
EXTENDS SimFormat
CONSTANTS MaxOps
VARIABLES g, phase
vars == <<g, phase>>
PHn(id, name) == [id |-> id, op |-> "placeholder", tgt |-> name, args |-> <<>>, kw |-> <<>>]
Init == g = <<PHn(1, "x"), PHn(2, "w"), PHn(3, "b")>> /\ phase = "build"
Nd(a) == <<"n", a>>
NewNodes ==
  LET id == FreshId(g)  T == Ids(g) IN
     {Mk(id, t, <<Nd(a), Nd(2)>>, <<>>) : t \in LinearTargets, a \in T}                                   \* linear(x, w)
  \cup {Mk(id, t, <<Nd(a), Nd(2), Nd(3)>>, <<>>) : t \in LinearTargets, a \in T}                           \* linear(x, w, b)
  \cup {Mk(id, t, <<Nd(a), Nd(2)>>, <<<<"bias", Nd(3)>>>>) : t \in LinearTargets, a \in T}                 \* linear(x, w, bias=b)
  \cup {Mk(id, "U.linear", <<Nd(a), Nd(2), Nd(3), <<"c", "'gmean'">>>>, <<>>) : a \in T}                  \* U.linear(x, w, b, 'gmean')
  \cup {Mk(id, t, <<Nd(a), Nd(a), Nd(c)>>, <<>>) : t \in AttnTargets, a \in T, c \in T}                    \* sdpa(q, k, v)
  \cup {Mk(id, t, <<Nd(a), Nd(a), Nd(a), Nd(3)>>, <<>>) : t \in AttnTargets, a \in T}                      \* sdpa(q, k, v, mask)
  \cup {Mk(id, t, <<Nd(a), Nd(a), Nd(a), NoneArg, <<"c", "0.0">>, <<"c", "True">>>>, <<>>) : t \in AttnTargets, a \in T}
  \cup {Mk(id, t, <<Nd(a), Nd(a), Nd(a)>>, <<<<"attn_mask", Nd(3)>>, <<"is_causal", <<"c", "False">>>>>>) : t \in AttnTargets, a \in T}
  \cup {Mk(id, "U.scaled_dot_product_attention", <<Nd(a), Nd(a), Nd(a)>>, <<<<"mult", <<"c", "2.0">>>>>>) : a \in T}
  \cup {Mk(id, t, <<>>, <<<<"input", Nd(a)>>, <<"weight", Nd(2)>>>>) : t \in LinearTargets, a \in T}                                \* linear(input=x, weight=w)
  \cup {Mk(id, t, <<Nd(a)>>, <<<<"weight", Nd(2)>>, <<"bias", Nd(3)>>>>) : t \in LinearTargets, a \in T}                           \* linear(x, weight=w, bias=b)
  \cup {Mk(id, t, <<>>, <<<<"query", Nd(a)>>, <<"key", Nd(a)>>, <<"value", Nd(a)>>>>) : t \in AttnTargets, a \in T}                 \* sdpa(query=, key=, value=)
  \cup {Mk(id, "F.gelu", <<Nd(a)>>, <<>>) : a \in T}
  \cup {Mk(id, "op.add", <<Nd(a), Nd(c)>>, <<>>) : a \in T, c \in T}
AddOp == phase = "build" /\ Len(g) - 3 < MaxOps /\ \E n \in NewNodes : g' = Append(g, n) /\ UNCHANGED phase
Close == phase = "build" /\ Len(g) > 3 /\ g' = Append(g, [id |-> FreshId(g), op |-> "output", tgt |-> "output", args |-> <<<<"l", <<Nd(g[Len(g)].id)>>>>>>, kw |-> <<>>]) /\ phase' = "done"
Spec == Init /\ [][AddOp \/ Close]_vars
Done == phase = "done"
RefinesOK == Done => RewriteRefinesRecipe(g)
UntouchedOK == Done => OthersUntouched(g)
ExecutesOK == Done => Executes(Rewrite(g))
WellFormedOK == Done => WellFormed(Recipe(g)) /\ WellFormed(Expand(Rewrite(g)))
=============================================================================
