------------------------------ MODULE Format_MC ------------------------------
EXTENDS Format, Json
CONSTANT Emit
VARIABLES f
Init == f = [ok |-> FALSE, why |-> "none"]
Pick == f.ok = FALSE /\ f.why = "none" /\ \E E \in 1 .. 8, M \in 0 .. 23, r \in Roundings, s \in 0 .. 23 : s <= 23 - M /\ f' = Construct(E, M, r, s)
Spec == Init /\ [][Pick]_f
RoundTripOK == f.ok => RoundTrip(f)
Idempotent == f.ok => Construct(f.E, f.M, f.r, f.s) = f
EmitF == (f.ok /\ Emit) => PrintT(<<"FMT", ToJson([E |-> f.E, M |-> f.M, r |-> f.r, s |-> f.s, tuple |-> ToTuple(f)])>>)
=============================================================================
