CONSTANTS HE = 3  HM = 4  Legacy = {"no_clip"}  Modes = {"nearest"}
SPECIFICATION Spec
INVARIANT NearestOK
INVARIANT SaturatesOK
INVARIANT IdempotentOK
INVARIANT MonotoneOK
INVARIANT FixedPointOK
INVARIANT RangeOK
INVARIANT BridgeOK
INVARIANT PatternOK
