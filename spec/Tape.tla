-------------------------------- MODULE Tape --------------------------------
(***************************************************************************)
(* The two scaling primitives and the residual split/add, as an autograd   *)
(* tape of edges carrying a FORWARD multiplier and a BACKWARD multiplier   *)
(* (C02 primitives, C06).                                                  *)
(*                                                                         *)
(* Part 1 (primitives): a chain of scale_fwd(s) / scale_bwd(s) applied to  *)
(* x has value multiplier = product of the forward factors and gradient    *)
(* multiplier = product of the backward factors; signed rationals, zero    *)
(* and negative factors included.                                          *)
(*                                                                         *)
(* Part 2 (residual programs): a program is an ordered forest of residual  *)
(* layers given by a parent vector in preorder (par[i] = 0 for top level). *)
(* Layer i computes  add(F_i(inner_i(split_res(x))), split_skip(x)); F_i   *)
(* is uninterpreted.  With r_i = tau_i/d_i, k_i = 1/d_i, d_i^2 = 1+tau_i^2 *)
(* the four edges of layer i carry (forward, backward) multipliers         *)
(*    split->branch (1, r_i)   split->skip (1, k_i)                        *)
(*    branch->add   (r_i, 1)   skip->add   (k_i, 1)                        *)
(* A path from x to the output chooses skip or branch at each layer it     *)
(* meets; its forward / backward coefficient is the product (a bag of      *)
(* symbols) of the multipliers on its edges.                               *)
(***************************************************************************)
EXTENDS Integers, Sequences, FiniteSets, TLC

CONSTANT Legacy

Abs(a) == IF a < 0 THEN -a ELSE a
RECURSIVE GCDs(_, _)
GCDs(a, b) == IF b = 0 THEN a ELSE GCDs(b, a % b)
SNorm(n, d) == IF n = 0 THEN <<0, 1>> ELSE LET g == GCDs(Abs(n), d) IN <<n \div g, d \div g>>
SMul(a, b) == SNorm(a[1] * b[1], a[2] * b[2])
SOne == <<1, 1>>

\* ---- Part 1: one primitive application on the pair (value multiplier, gradient multiplier)
ScaleFwd(st, s) == [f |-> SMul(st.f, s), b |-> (IF "fwd_touches_bwd" \in Legacy THEN SMul(st.b, s) ELSE st.b)]
ScaleBwd(st, s) == [f |-> st.f, b |-> SMul(st.b, s)]
RECURSIVE RunChain(_, _)
RunChain(st, ch) ==          \* ch: sequence of <<"fwd"|"bwd", factor>>
  IF ch = <<>> THEN st
  ELSE RunChain(IF Head(ch)[1] = "fwd" THEN ScaleFwd(st, Head(ch)[2]) ELSE ScaleBwd(st, Head(ch)[2]), Tail(ch))
RECURSIVE ProdOf(_, _)
ProdOf(ch, kind) == IF ch = <<>> THEN SOne
                    ELSE SMul(IF Head(ch)[1] = kind THEN Head(ch)[2] ELSE SOne, ProdOf(Tail(ch), kind))

\* ---- Part 2: residual programs
\* symbols contributed to (forward, backward) by layer i when the path takes the branch / the skip
BranchSyms == IF "split_swapped" \in Legacy THEN [fwd |-> <<"r">>, bwd |-> <<"k">>]
              ELSE IF "tau_both_passes_at_split" \in Legacy THEN [fwd |-> <<"r", "r">>, bwd |-> <<"r">>]
              ELSE [fwd |-> <<"r">>, bwd |-> <<"r">>]
SkipSyms   == IF "split_swapped" \in Legacy THEN [fwd |-> <<"k">>, bwd |-> <<"r">>]
              ELSE [fwd |-> <<"k">>, bwd |-> <<"k">>]
\* backward multiplier on the edge from a layer's branch output into its add (must be 1: unattenuated)
AddBranchBwd == IF "add_scales_bwd" \in Legacy THEN "r" ELSE "1"

ValidPar(par) == \A i \in 1 .. Len(par) :
   /\ par[i] \in 0 .. i - 1
   /\ (i > 1 /\ par[i] # 0) =>   \* preorder: the parent is node i-1 or one of its ancestors
        LET RECURSIVE Anc(_)
            Anc(j) == IF j = 0 THEN {} ELSE {j} \cup Anc(par[j])
        IN par[i] \in Anc(i - 1)
Children(par, p) == {i \in 1 .. Len(par) : par[i] = p}

\* A path is a choice vector c : node -> {"branch","skip","off"}; "off" iff an ancestor is skipped.
PathOK(par, c) == \A i \in 1 .. Len(par) :
   IF par[i] = 0 THEN c[i] # "off"
   ELSE (c[i] = "off") <=> (c[par[i]] # "branch")
Paths(par) == {c \in [1 .. Len(par) -> {"branch", "skip", "off"}] : PathOK(par, c)}

\* order in which the uninterpreted F's are applied along a path: inner layers before their parent's F
RECURSIVE FsOf(_, _, _)
FsOf(par, c, nodes) ==       \* nodes: sequence of sibling node ids, in order
  IF nodes = <<>> THEN <<>>
  ELSE LET i == Head(nodes)
           kids == LET S == Children(par, i) IN [k \in 1 .. Cardinality(S) |-> CHOOSE x \in S : Cardinality({y \in S : y < x}) = k - 1]
       IN (IF c[i] = "branch" THEN FsOf(par, c, kids) \o <<i>> ELSE <<>>) \o FsOf(par, c, Tail(nodes))
TopLevel(par) == LET S == Children(par, 0) IN [k \in 1 .. Cardinality(S) |-> CHOOSE x \in S : Cardinality({y \in S : y < x}) = k - 1]

Coef(par, c, dir) == [i \in 1 .. Len(par) |->
   IF c[i] = "branch" THEN (IF dir = "fwd" THEN BranchSyms.fwd ELSE BranchSyms.bwd)
   ELSE IF c[i] = "skip" THEN (IF dir = "fwd" THEN SkipSyms.fwd ELSE SkipSyms.bwd)
   ELSE <<>>]
PathRec(par, c) == [choice |-> c, fs |-> FsOf(par, c, TopLevel(par)), fwd |-> Coef(par, c, "fwd"), bwd |-> Coef(par, c, "bwd")]

\* C06 on the design
TrueGradient(par) == \A c \in Paths(par) : Coef(par, c, "fwd") = Coef(par, c, "bwd")
ForwardIsMix(par) == \A c \in Paths(par) : \A i \in 1 .. Len(par) :
   Coef(par, c, "fwd")[i] = (IF c[i] = "branch" THEN <<"r">> ELSE IF c[i] = "skip" THEN <<"k">> ELSE <<>>)
Unattenuated == AddBranchBwd = "1"
=============================================================================
