CONSTANTS MaxDim = 5  Legacy = {}
SPECIFICATION Spec
INVARIANT UnitScaleOK
INVARIANT CountsAgree
INVARIANT ResidualOK
INVARIANT ReadoutOK
INVARIANT ScalesPositive
INVARIANT TablesOK
INVARIANT MemoOK
