CONSTANTS Legacy = {}  MaxOps = 3
SPECIFICATION Spec
INVARIANT RefinesOK
INVARIANT UntouchedOK
INVARIANT ExecutesOK
INVARIANT WellFormedOK
