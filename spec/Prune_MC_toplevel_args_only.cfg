CONSTANTS Legacy = {"toplevel_args_only"}  MaxOps = 2  Helpers = {"non_float", "same_scale", "selected"}
SPECIFICATION Spec
INVARIANT InputWellFormed
INVARIANT NonFloatOK
INVARIANT SameScaleOK
INVARIANT SelectedOK
