--------------------------- MODULE Quantise_Trace ---------------------------
(***************************************************************************)
(* Validates events recorded from the real FPFormat.quantise (float32 host)*)
(* against module Quantise: each event must be a step of the algorithm     *)
(* model AND satisfy the declarative property.  Verdicts are total: a bad  *)
(* event is recorded in `fails` with the name of the failing clause and    *)
(* the walk continues, so every event is examined.                         *)
(*                                                                         *)
(* event = <<E, M, kind, s, xs, x, a, b, qs, c>> (xs/qs sign bits, x magnitude)*)
(*   kind 0  nearest:            a = result magnitude                      *)
(*   kind 1  stochastic draw:    a = r (the draw), b = result magnitude    *)
(*   kind 3/5 API observations (flags), kind 4 see Verdict                  *)
(*   kind 2  stochastic, all 2^s draws enumerated: a = rstar = least draw  *)
(*           whose result differs from the result of draw 0 (2^s if none), *)
(*           b = result of draw 0, c = result of the last draw; the harness*)
(*           has checked the raw outputs are a two-valued step function    *)
(***************************************************************************)
EXTENDS Quantise, TLC, Json, IOUtils

Trace == JsonDeserialize(IOEnv.TRACE_FILE)
N == Len(Trace)

VARIABLES l, fails, drifts
vars == <<l, fails, drifts>>

Verdict(ev) ==
  LET E == ev[1]  M == ev[2]  kind == ev[3]  s == ev[4]  xs == ev[5]  x == ev[6]
      a == ev[7]  b == ev[8]  qs == ev[9]  c == ev[10]
  IN IF kind = 0 THEN
       IF qs # xs THEN "sign"
       ELSE IF ~Representable(E, M, a) THEN "representable"
       ELSE IF ~Saturates(E, M, x, a) THEN "saturates"
       ELSE IF ~Nearest(E, M, x, a) THEN "nearest"
       ELSE "ok"
     ELSE IF kind = 3 THEN   \* API observation: xs,x,a,b = shape kept, dtype kept, argument unmodified, values float32-exact
       IF xs # 1 THEN "api_shape" ELSE IF x # 1 THEN "api_dtype" ELSE IF a # 1 THEN "api_argument_modified"
       ELSE IF b # 1 THEN "api_value_roundtrip" ELSE "ok"
     ELSE IF kind = 6 THEN   \* range properties of the format object: x = float32 pattern of max_absolute_value,
                             \* a / b = binary exponents of min_absolute_normal / min_absolute_subnormal (qs = 1: both exact powers of two)
       IF x # PMax(E, M) THEN "max_absolute_value"
       ELSE IF qs # 1 THEN "min_values_not_powers_of_two"
       ELSE IF a # 1 - Pow2(E - 1) THEN "min_absolute_normal"
       ELSE IF b # 1 - Pow2(E - 1) - M THEN "min_absolute_subnormal"
       ELSE "ok"
     ELSE IF kind = 5 THEN   \* stochastic API observation: one draw per element in [0, 2^s), shape, dtype
       IF xs # 1 THEN "independent_draw_per_element_in_range" ELSE IF x # 1 THEN "api_shape" ELSE IF a # 1 THEN "api_dtype" ELSE "ok"
     ELSE IF kind = 4 THEN   \* stochastic, results not a monotone step: declarative part only (a = count away from zero, b/c = lo/hi results)
       LET eq == ExactQuot(E, Clip(E, M, x))  lo == Lo(M, eq[1]) IN
       IF ~(Neighbour(E, M, x, b) /\ Neighbour(E, M, x, c)) THEN "neighbour"
       ELSE IF ~IsUpOf(E, b, lo) THEN "step_direction"
       ELSE IF ~CountOK(E, M, s, x, a) THEN "proportional"
       ELSE "ok"
     ELSE IF kind = 1 THEN
       IF qs # xs THEN "sign"
       ELSE IF ~Representable(E, M, b) THEN "representable"
       ELSE IF ~Neighbour(E, M, x, b) THEN "neighbour"
       ELSE "ok"
     ELSE
       LET eq == ExactQuot(E, Clip(E, M, x))  S == Pow2(HM - M)  lo == Lo(M, eq[1])
           grid == OnGrid(M, eq)
           bLo == IsUpOf(E, b, lo)
           cHi == ~grid /\ IsUpOf(E, c, lo + S)
           cnt == IF a < Pow2(s) THEN Pow2(s) - a ELSE IF bLo THEN 0 ELSE Pow2(s)
       IN
       IF ~(Neighbour(E, M, x, b) /\ Neighbour(E, M, x, c)) THEN "neighbour"
       ELSE IF a < Pow2(s) /\ ~(bLo /\ cHi) THEN "step_direction"
       ELSE IF a = Pow2(s) /\ b # c THEN "harness_step_encoding"
       ELSE IF ~CountOK(E, M, s, x, cnt) THEN "proportional"
       ELSE "ok"

\* Does the event follow the ALGORITHM model step for step?  Not a verdict about
\* the property (another algorithm may satisfy it, e.g. a different tie rule):
\* a drift only means the L2 result about the modelled algorithm no longer
\* transfers to the code, and is reported without failing the check.
Drift(ev) ==
  LET E == ev[1]  M == ev[2]  kind == ev[3]  s == ev[4]  x == ev[6]  a == ev[7]  b == ev[8]  c == ev[10]
  IN IF kind = 0 THEN QMag(E, M, OffNearest(M), x) # a
     ELSE IF kind = 1 THEN QMag(E, M, OffStoch(M, s, a), x) # b
     ELSE IF kind = 2 THEN
       \/ QMag(E, M, OffStoch(M, s, 0), x) # b
       \/ QMag(E, M, OffStoch(M, s, Pow2(s) - 1), x) # c
       \/ (a > 0 /\ a < Pow2(s) /\ (QMag(E, M, OffStoch(M, s, a - 1), x) # b \/ QMag(E, M, OffStoch(M, s, a), x) # c))
     ELSE FALSE

Init == l = 1 /\ fails = <<>> /\ drifts = <<>>
Step == /\ l <= N
        /\ LET v == Verdict(Trace[l]) IN
             fails' = IF v = "ok" \/ Len(fails) >= 50 THEN fails ELSE Append(fails, <<l, v>>)
        /\ drifts' = IF Len(drifts) < 20 /\ Drift(Trace[l]) THEN Append(drifts, <<l, "model_step">>) ELSE drifts
        /\ l' = l + 1
Finish == /\ l = N + 1
          /\ JsonSerialize(IOEnv.OUT_FILE, [fails |-> fails, drifts |-> drifts, n |-> N, ev |-> N])
          /\ l' = N + 2 /\ UNCHANGED <<fails, drifts>>
Next == Step \/ Finish
Spec == Init /\ [][Next]_vars
=============================================================================
