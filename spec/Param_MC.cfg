CONSTANTS Legacy = {}  MaxLen = 4
SPECIFICATION Spec
INVARIANT TypeOK
INVARIANT TagsSurvive
INVARIANT OptimAccepts
INVARIANT HooksInstalled
INVARIANT ValuesKept
PROPERTY TagsConstant
