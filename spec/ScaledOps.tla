------------------------------ MODULE ScaledOps ------------------------------
(***************************************************************************)
(* unit_scaling.functional as a specification sees it (C01, C02, C03, C05, *)
(* C20): for one call, one multiplier on the forward value and one per     *)
(* differentiable input on its gradient.                                   *)
(*  - tables: which ops exist, which report PyTorch's value exactly, which *)
(*    arguments are rejected, which slots a constraint ties together       *)
(*  - a call-log "memo machine": a configuration never maps to two factor  *)
(*    classes, whatever the data draw, upstream gradient, call count, mode *)
(*  - pinned squared scales of the (bi)linear ops, written as the code     *)
(*    computes them, and an independent TERM-COUNT model (explicit index   *)
(*    sets of the contraction) with the invariant  Scale2 * Count = 1      *)
(***************************************************************************)
EXTENDS Rat, Sequences, FiniteSets, TLC

Ops == {"gelu", "silu", "silu_glu", "softmax", "dropout", "matmul", "linear", "linear_readout", "conv1d",
        "layer_norm", "rms_norm", "add", "embedding", "scaled_dot_product_attention", "cross_entropy", "mse_loss"}
Exact1Ops == {"cross_entropy", "mse_loss", "layer_norm", "rms_norm", "embedding"}
Modes == {"eager", "aot_eager", "inductor", "fx_forward", "leaf_tracer"}

UnsupportedArgs(op) ==
  IF op = "silu" THEN {"inplace"} ELSE IF op = "dropout" THEN {"inplace"} ELSE IF op = "add" THEN {"alpha"}
  ELSE IF op = "embedding" THEN {"scale_grad_by_freq", "sparse"}
  ELSE IF op = "cross_entropy" THEN {"weight", "size_average", "reduce", "label_smoothing"}
  ELSE IF op = "mse_loss" THEN {"size_average", "reduce"} ELSE {}

\* differentiable input slots
Slots(op) ==
  IF op \in {"gelu", "silu", "softmax", "dropout"} THEN {"input"}
  ELSE IF op = "silu_glu" THEN {"input", "gate"}
  ELSE IF op = "matmul" THEN {"left", "right"}
  ELSE IF op \in {"linear", "linear_readout", "conv1d"} THEN {"input", "weight", "bias"}
  ELSE IF op = "layer_norm" THEN {"input", "weight", "bias"}
  ELSE IF op = "rms_norm" THEN {"input", "weight"}
  ELSE IF op = "add" THEN {"input", "other"}
  ELSE IF op = "embedding" THEN {"weight"}
  ELSE IF op = "scaled_dot_product_attention" THEN {"query", "key", "value"}
  ELSE IF op = "cross_entropy" THEN {"input"}
  ELSE {"input", "target"}

\* the tuple a constraint acts on: <<"out", grad slots...>> in the order the code passes them
Group(op) ==
  IF op \in {"gelu", "silu", "softmax", "linear", "linear_readout", "conv1d"} THEN <<"out", "input">>
  ELSE IF op = "matmul" THEN <<"out", "left", "right">>
  ELSE IF op = "add" THEN <<"out", "input", "other">>
  ELSE <<>>
\* ops whose forward and backward scales are one shared value by construction
FixedGroup(op) ==
  IF op = "silu_glu" THEN {"out", "input", "gate"}
  ELSE IF op = "scaled_dot_product_attention" THEN {"out", "query", "key", "value"}
  ELSE IF op = "dropout" THEN {"out", "input"}
  ELSE {}
DefaultConstraint(op) == IF op = "linear_readout" THEN "" ELSE "to_output_scale"
BinaryNames == {"", "gmean", "hmean", "amean", "to_output_scale", "to_grad_input_scale"}
TernaryNames == {"", "gmean", "hmean", "amean", "to_output_scale", "to_left_grad_scale", "to_right_grad_scale"}
ValidNames(op) == IF Len(Group(op)) = 2 THEN BinaryNames ELSE IF Len(Group(op)) = 3 THEN TernaryNames ELSE {}

-----------------------------------------------------------------------------
(* The call-log memo machine (C01/C02/C20).  key = (configuration id, slot); *)
(* cls = factor class id assigned by the harness (equal within tolerance).   *)
Observe(memo, key, cls) ==
  IF key \in DOMAIN memo THEN [ok |-> memo[key] = cls, memo |-> memo]
  ELSE [ok |-> TRUE, memo |-> [k \in DOMAIN memo \cup {key} |-> IF k = key THEN cls ELSE memo[k]]]
Functional(log) ==   \* declarative: over a whole log, same key => same class
  \A a, b \in 1 .. Len(log) : log[a].key = log[b].key => log[a].cls = log[b].cls

-----------------------------------------------------------------------------
(* C03: pinned squared scales, as the code computes them from shapes.        *)
(* c is a record of small integers; which fields exist depends on c.op.      *)
Prod(s) == IF s = <<>> THEN 1 ELSE LET RECURSIVE P(_) P(k) == IF k > Len(s) THEN 1 ELSE s[k] * P(k + 1) IN P(1)
ConvOutLen(c) == (c.len + 2 * c.pad - c.dil * (c.k - 1) - 1) \div c.stride + 1
\* broadcast of two shapes (right aligned); 0 marks "not broadcastable"
Pad(s, n) == [j \in 1 .. n |-> IF j <= n - Len(s) THEN 1 ELSE s[j - (n - Len(s))]]
Max2(a, b) == IF a > b THEN a ELSE b
BShape(sa, sb) == LET n == Max2(Len(sa), Len(sb))  a == Pad(sa, n)  b == Pad(sb, n)
                  IN [j \in 1 .. n |-> Max2(a[j], b[j])]

Scale2(c, slot) ==
  IF c.op \in {"linear", "linear_readout"} THEN
    IF slot = "out" THEN (IF c.op = "linear" THEN R(1, c.fi) ELSE RMul(R(1, c.fi), R(1, c.fi)))
    ELSE IF slot = "input" THEN R(1, c.fo)
    ELSE R(1, c.batch)                                          \* weight, bias
  ELSE IF c.op = "matmul" THEN
    IF slot = "out" THEN R(1, c.b) ELSE IF slot = "left" THEN R(1, c.c) ELSE R(1, c.a)
  ELSE IF c.op = "conv1d" THEN
    IF slot = "out" THEN R(1, (c.cin \div c.groups) * c.k)
    ELSE IF slot = "input" THEN R(c.stride * c.groups, c.cout * c.k)
    ELSE R(1, ConvOutLen(c) * c.batch)
  ELSE IF c.op = "add" THEN
    IF slot = "out" THEN (IF Prod(c.sa) = 1 \/ Prod(c.sb) = 1 THEN ROne ELSE R(1, 2))
    ELSE IF slot = "input" THEN R(Prod(c.sa), Prod(BShape(c.sa, c.sb)))
    ELSE R(Prod(c.sb), Prod(BShape(c.sa, c.sb)))
  ELSE IF c.op = "embedding" THEN R(c.vocab, c.batch)           \* weight
  ELSE IF c.op = "dropout" THEN RSub(ROne, <<c.p[1], c.p[2]>>)  \* out and input
  ELSE IF c.op = "mse_loss" THEN R(1, 8)                        \* input, target
  ELSE IF c.op \in {"layer_norm", "rms_norm"} THEN R(c.normsize, c.numel)   \* weight, bias
  ELSE IF c.op = "residual_add" THEN                            \* the two forward weights
    LET t2 == <<c.tau2[1], c.tau2[2]>>  d2 == RAdd(ROne, t2)
    IN IF slot = "residual" THEN RDiv(t2, d2) ELSE RDiv(ROne, d2)
  ELSE <<0, 1>>

PinnedSlots(c) ==
  IF c.op \in {"linear", "linear_readout", "conv1d"} THEN {"out", "input", "weight"} \cup (IF c.bias THEN {"bias"} ELSE {})
  ELSE IF c.op = "matmul" THEN {"out", "left", "right"}
  ELSE IF c.op = "add" THEN {"out", "input", "other"}
  ELSE IF c.op = "embedding" THEN {"weight"}
  ELSE IF c.op = "dropout" THEN {"out", "input"}
  ELSE IF c.op = "mse_loss" THEN {"input", "target"}
  ELSE IF c.op = "layer_norm" THEN (IF c.weight THEN {"weight"} ELSE {}) \cup (IF c.bias THEN {"bias"} ELSE {})   \* bias-only affine is a valid call
  ELSE IF c.op = "rms_norm" THEN {"weight"}
  ELSE IF c.op = "residual_add" THEN {"residual", "skip"}
  ELSE {}

(* The term-count model: how many independent unit-variance terms are summed  *)
(* into one element (second moment of the unscaled tensor), as a rational.    *)
(* CountSet builds the index set explicitly (small shapes only); Count is the *)
(* closed form used for large shapes; ScaledOps_MC checks they agree.         *)
ConvPairs(c, p) == {tj \in (0 .. ConvOutLen(c) - 1) \X (0 .. c.k - 1) : tj[1] * c.stride + tj[2] * c.dil - c.pad = p}
CountSet(c, slot) ==
  IF c.op \in {"linear", "linear_readout"} THEN
    IF slot = "out" THEN RInt(Cardinality(1 .. c.fi))
    ELSE IF slot = "input" THEN RInt(Cardinality(1 .. c.fo))
    ELSE RInt(Cardinality(1 .. c.batch))
  ELSE IF c.op = "matmul" THEN
    RInt(Cardinality(1 .. (IF slot = "out" THEN c.b ELSE IF slot = "left" THEN c.c ELSE c.a)))
  ELSE IF c.op = "conv1d" THEN
    IF slot = "out" THEN RInt(Cardinality((1 .. (c.cin \div c.groups)) \X (0 .. c.k - 1)))      \* no padding: all taps valid
    ELSE IF slot = "input" THEN
      \* interior positions: mean over one stride period of the number of (t, j) pairs hitting p, times out-channels of the group
      LET p0 == c.dil * (c.k - 1)             \* first position every tap can reach
          per == {p0 + q : q \in 0 .. c.stride - 1}
          RECURSIVE Sum(_)
          Sum(S) == IF S = {} THEN 0 ELSE LET p == CHOOSE x \in S : TRUE IN Cardinality(ConvPairs(c, p)) + Sum(S \ {p})
      IN R((c.cout \div c.groups) * Sum(per), c.stride)
    ELSE RInt(Cardinality((1 .. c.batch) \X (1 .. ConvOutLen(c))))
  ELSE IF c.op = "add" THEN
    IF slot = "out" THEN RInt(2)
    ELSE LET bs == BShape(c.sa, c.sb)  own == Pad(IF slot = "input" THEN c.sa ELSE c.sb, Len(bs))
         IN RInt(Prod([j \in 1 .. Len(bs) |-> IF own[j] = bs[j] THEN 1 ELSE bs[j]]))
  ELSE IF c.op = "embedding" THEN R(c.batch, c.vocab)
  ELSE IF c.op = "dropout" THEN RInv(RSub(ROne, <<c.p[1], c.p[2]>>))     \* keep-prob * (1/(1-p))^2
  ELSE IF c.op = "mse_loss" THEN RInt(2 * 2 + 2 * 2)                      \* d/da, d/db of (a-b)^2 : coefficients 2 and -2
  ELSE IF c.op \in {"layer_norm", "rms_norm"} THEN R(c.numel, c.normsize)
  ELSE IF c.op = "residual_add" THEN ROne
  ELSE <<0, 1>>
Count(c, slot) ==
  IF c.op = "conv1d" /\ slot = "input" THEN R((c.cout \div c.groups) * c.k, c.stride)
  ELSE IF c.op = "conv1d" /\ slot = "out" THEN RInt((c.cin \div c.groups) * c.k)
  ELSE IF c.op = "conv1d" THEN RInt(c.batch * ConvOutLen(c))
  ELSE IF c.op \in {"linear", "linear_readout"} THEN RInt(IF slot = "out" THEN c.fi ELSE IF slot = "input" THEN c.fo ELSE c.batch)
  ELSE IF c.op = "matmul" THEN RInt(IF slot = "out" THEN c.b ELSE IF slot = "left" THEN c.c ELSE c.a)
  ELSE CountSet(c, slot)

\* documented exceptions to "scale^2 * count = 1"
Exception(c, slot) ==
  \/ c.op = "linear_readout" /\ slot = "out"                            \* deliberately 1/fan_in
  \/ c.op = "add" /\ (Prod(c.sa) = 1 \/ Prod(c.sb) = 1)                  \* single-element operands excluded
  \/ c.op = "conv1d" /\ c.pad > 0 /\ slot \in {"out", "input", "weight"} \* exact without padding only
  \/ c.op = "residual_add"                                               \* weights^2 sum to 1 instead
UnitScale(c, slot) == Exception(c, slot) \/ RMul(Scale2(c, slot), Count(c, slot)) = ROne
ResidualWeights(c) == c.op = "residual_add" => RAdd(Scale2(c, "residual"), Scale2(c, "skip")) = ROne
ReadoutOutput(c) == c.op = "linear_readout" => RMul(Scale2(c, "out"), Count(c, "out")) = R(1, c.fi)
=============================================================================
