CONSTANTS HE = 4  HM = 8  Legacy = {}  Modes = {"nearest"}
SPECIFICATION Spec
INVARIANT NearestOK
INVARIANT SaturatesOK
INVARIANT IdempotentOK
INVARIANT MonotoneOK
INVARIANT FixedPointOK
INVARIANT RangeOK
INVARIANT BridgeOK
INVARIANT PatternOK
