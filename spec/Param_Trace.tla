----------------------------- MODULE Param_Trace -----------------------------
(***************************************************************************)
(* Validates histories replayed on real unit_scaling parameters against    *)
(* module Param.  One trace = [t, d, ops, obs] where obs[k] is the         *)
(* projected abstract state observed after k-1 operations (obs[1] is the   *)
(* freshly constructed parameter) plus two end-to-end observations at      *)
(* every step: acc (scaled_parameters accepts it) and lrsame (same factor  *)
(* as the original).  One TLC step consumes one trace; every step of the   *)
(* trace is checked against Apply and against the C09 invariants.          *)
(***************************************************************************)
EXTENDS Param, Json, IOUtils

Traces == JsonDeserialize(IOEnv.TRACE_FILE)
N == Len(Traces)

\* fields the property speaks about (gating) / fields of the mechanism (model drift only)
Observable == <<"tags", "typ", "depth", "isParam", "rg", "dtype", "val">>
Mechanism  == <<"dc", "rx">>

FirstDiff(F, exp, ob) ==
  LET bad == {k \in 1 .. Len(F) : exp[F[k]] # ob[F[k]]}
  IN IF bad = {} THEN "" ELSE F[CHOOSE k \in bad : \A j \in bad : k <= j]

\* verdict <<step, clause, drifted>> for steps k.. given the spec state cur expected at position k.
\* After a mechanism drift the walk continues from the OBSERVED state, so later
\* predictions are those of the spec's actions applied to what the code really holds.
RECURSIVE Walk(_, _, _, _)
Walk(tr, k, cur, dr) ==
  LET ob == tr.obs[k]
      obst == [f \in DOMAIN cur |-> ob[f]]
      drift == dr \/ FirstDiff(Mechanism, cur, ob) # ""
  IN
  IF ~(ob.tags /\ ob.isParam) THEN <<k, "tags_lost", drift>>
  ELSE IF ob.typ # tr.t \/ ob.depth # tr.d THEN <<k, "tags_changed", drift>>
  ELSE IF ~ob.acc THEN <<k, "optimizer_rejects", drift>>
  ELSE IF ~ob.lrsame THEN <<k, "lr_factor_differs", drift>>
  ELSE IF FirstDiff(Observable, cur, ob) # "" THEN <<k, "state_mismatch_" \o FirstDiff(Observable, cur, ob), drift>>
  ELSE IF k > Len(tr.ops) THEN <<0, "ok", drift>>
  ELSE IF tr.ops[k] \notin Ops THEN <<k, "unknown_op", drift>>
  ELSE IF ~Enabled(tr.ops[k], SubSeq(tr.ops, 1, k - 1)) THEN <<k, "op_not_enabled_in_spec", drift>>
  ELSE Walk(tr, k + 1, Apply(tr.ops[k], obst), drift)

VARIABLES l, fails, drifts
tvars == <<l, fails, drifts, st, h>>
TInit == l = 1 /\ fails = <<>> /\ drifts = <<>> /\ st = InitState("weight", 0) /\ h = <<>>
TStep == /\ l <= N
         /\ LET tr == Traces[l]  v == Walk(tr, 1, InitState(tr.t, tr.d), FALSE) IN
              /\ fails' = IF v[2] = "ok" \/ Len(fails) >= 50 THEN fails ELSE Append(fails, <<l, v[1], v[2]>>)
              /\ drifts' = IF v[3] /\ Len(drifts) < 20 THEN Append(drifts, <<l, "mechanism_fields">>) ELSE drifts
         /\ l' = l + 1
         /\ st' = InitState(Traces[l].t, Traces[l].d) /\ h' = Traces[l].ops    \* the spec's own variables show the trace being examined
TFinish == /\ l = N + 1
           /\ JsonSerialize(IOEnv.OUT_FILE, [fails |-> fails, drifts |-> drifts, n |-> N, ev |-> N])
           /\ l' = N + 2 /\ UNCHANGED <<fails, drifts, st, h>>
TSpec == TInit /\ [][TStep \/ TFinish]_tvars
=============================================================================
