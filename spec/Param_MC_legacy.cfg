CONSTANTS Legacy = {"copy_drops_hooks"}  MaxLen = 4
SPECIFICATION Spec
INVARIANT TagsSurvive
