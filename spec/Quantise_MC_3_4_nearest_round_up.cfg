CONSTANTS HE = 3  HM = 4  Legacy = {"round_up"}  Modes = {"nearest"}
SPECIFICATION Spec
INVARIANT NearestOK
INVARIANT SaturatesOK
INVARIANT IdempotentOK
INVARIANT MonotoneOK
INVARIANT FixedPointOK
INVARIANT RangeOK
INVARIANT BridgeOK
INVARIANT PatternOK
