CONSTANTS Legacy = {"kw_operands_unsupported"}  MaxOps = 2
SPECIFICATION Spec
INVARIANT RefinesOK
INVARIANT ExecutesOK
