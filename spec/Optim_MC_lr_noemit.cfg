CONSTANTS Legacy = {}  Phase = "lr"  MaxGroups = 0  Emit = FALSE
SPECIFICATION Spec
INVARIANT OutcomeTotal
INVARIANT ErrorsExactly
INVARIANT SgdNoneIsAdam
INVARIANT AdamIgnoresReadout
INVARIANT WeightRulesMirror
INVARIANT WidthIndependent
INVARIANT EmitCase
