CONSTANTS Legacy = {"tuple_drops_rounding"}  Emit = FALSE
SPECIFICATION Spec
INVARIANT RoundTripOK
INVARIANT Idempotent
INVARIANT EmitF
