--------------------------- MODULE Constraints_MC ---------------------------
(* All tuples of 1..MaxN scales over a small set of positive rationals:       *)
(* symmetry, bounds, H <= G <= A (through n-th powers), homogeneity,          *)
(* selection, collapse.  Each state is also emitted for replay on the real    *)
(* gmean/hmean/amean/apply_constraint (direction A).                          *)
EXTENDS Constraints, TLC, Json

CONSTANTS MaxN, Emit, Legacy
Vals == {<<1, 4>>, <<1, 3>>, <<1, 2>>, <<1, 1>>, <<2, 1>>, <<3, 1>>, <<4, 1>>}

VARIABLE s
Init == s = <<>>
Grow == Len(s) < MaxN /\ \E v \in Vals : s' = Append(s, v)
Spec == Init /\ [][Grow]_s
Ready == Len(s) >= 1
n == Len(s)

H == IF "swap_h_a" \in Legacy THEN AMean(s) ELSE HMean(s)
A == IF "swap_h_a" \in Legacy THEN HMean(s) ELSE AMean(s)
MinV == CHOOSE v \in {s[k] : k \in 1 .. n} : \A w \in {s[k] : k \in 1 .. n} : RLeq(v, w)
MaxV == CHOOSE v \in {s[k] : k \in 1 .. n} : \A w \in {s[k] : k \in 1 .. n} : RLeq(w, v)
Swap(t, a, b) == [k \in 1 .. Len(t) |-> IF k = a THEN t[b] ELSE IF k = b THEN t[a] ELSE t[k]]

Bounds == Ready => /\ RLeq(MinV, H) /\ RLeq(H, MaxV) /\ RLeq(MinV, A) /\ RLeq(A, MaxV)
                   /\ RLeq(RPowN(MinV, n), GMeanPow(s)) /\ RLeq(GMeanPow(s), RPowN(MaxV, n))
Ordering == Ready => RLeq(RPowN(H, n), GMeanPow(s)) /\ RLeq(GMeanPow(s), RPowN(A, n))
Symmetric == Ready => \A a, b \in 1 .. n :
     HMean(Swap(s, a, b)) = HMean(s) /\ AMean(Swap(s, a, b)) = AMean(s) /\ GMeanPow(Swap(s, a, b)) = GMeanPow(s)
Homogeneous == Ready => LET c == <<3, 2>>  t == [k \in 1 .. n |-> RMul(c, s[k])]
     IN HMean(t) = RMul(c, HMean(s)) /\ AMean(t) = RMul(c, AMean(s)) /\ GMeanPow(t) = RMul(RPowN(c, n), GMeanPow(s))
EqualScales == (Ready /\ \A k \in 1 .. n : s[k] = s[1]) => HMean(s) = s[1] /\ AMean(s) = s[1] /\ GMeanPow(s) = RPowN(s[1], n)
Selection == Ready => \A nm \in SelectNames : ArityOK(nm, n) => Selected(nm, s) \in {s[k] : k \in 1 .. n}
SymOK == Ready => \A nm \in Names \cup {"", "bogus"} :
     LET r == ApplySym(nm, n) IN
       IF nm = "" THEN r = [j \in 1 .. n |-> [k |-> "free", i |-> j]]
       ELSE IF nm = "bogus" THEN r[1].k = "error"
       ELSE IF ~ArityOK(nm, n) THEN r[1].k = "error"
       ELSE Len(r) = n /\ Collapsed(r)
EmitTuple == (Ready /\ Emit) => PrintT(<<"TUPLE", ToJson([s |-> s, h |-> HMean(s), a |-> AMean(s), gpow |-> GMeanPow(s)])>>)
=============================================================================
