CONSTANTS Legacy = {}  MaxMods = 5  MaxCalls = 5  GenKinds = {"us", "q1", "q2", "q3", "track"}
SPECIFICATION GSpec
CONSTRAINT GenOnly
INVARIANT Emit
INVARIANT EffectiveIsOwn
INVARIANT RerunIsOwn
