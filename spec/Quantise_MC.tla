---------------------------- MODULE Quantise_MC ----------------------------
(***************************************************************************)
(* Exhaustive check of the quantiser design on a scaled-down host float:   *)
(* every finite host pattern x every target format (E <= HE, M <= HM)      *)
(* x nearest and every srbits, with every random draw enumerated.          *)
(* The declarative side is stated twice: over exact VALUES (sets of        *)
(* representable numbers in units of half a host ulp; only possible on a   *)
(* small host) and in PATTERN coordinates (module Quantise; the form that  *)
(* also works at float32).  Bridging invariants tie the two together.      *)
(***************************************************************************)
EXTENDS Quantise, FiniteSets, FiniteSetsExt, SequencesExt, TLC

CONSTANTS Legacy,      \* named deviations of the algorithm (non-vacuity self-test)
          Modes        \* subset of {"nearest", "stoch"}: which rounding modes this run covers

Formats == (2 .. HE) \X (0 .. HM)
V2(p) == IF ExpF(p) = 0 THEN 2 * Man(p) ELSE 2 * (Pow2(HM) + Man(p)) * Pow2(ExpF(p) - 1)
TInts(E, M) == (0 .. Pow2(M) - 1) \cup {(Pow2(M) + m) * Pow2(e - 1) : m \in 0 .. Pow2(M) - 1, e \in 1 .. Pow2(E) - 1}
Unit(E, M) == Pow2(D(E) + HM - M + 1)
RepF == [em \in Formats |-> {t * Unit(em[1], em[2]) : t \in TInts(em[1], em[2])}]
RepSeqF == [em \in Formats |-> SetToSortSeq(RepF[em], LAMBDA a, b : a < b)]
MaxF == [em \in Formats |-> RepSeqF[em][Len(RepSeqF[em])]]
MinPosF == [em \in Formats |-> RepSeqF[em][2]]
RECURSIVE BS(_, _, _, _)   \* largest index i in a..b with seq[i] <= x (seq[a] <= x assumed)
BS(seq, x, a, b) == IF a = b THEN a ELSE LET m == (a + b + 1) \div 2 IN IF seq[m] <= x THEN BS(seq, x, m, b) ELSE BS(seq, x, a, m - 1)
V2Inv == [v \in {V2(r) : r \in FinitePats} |-> CHOOSE r \in FinitePats : V2(r) = v]
MinNormF == [em \in Formats |-> Pow2(em[2]) * Unit(em[1], em[2])]
InScope(E, p) == IF E = HE THEN ExpF(p) < Pow2(HE) - 2 ELSE TRUE
Abs(a) == IF a < 0 THEN -a ELSE a
Min2(a, b) == IF a < b THEN a ELSE b

VARIABLES E, M, p, s,      \* s = -1: not yet chosen; 0: nearest; >= 1: stochastic with s random bits
          lov, hiv          \* value-level neighbours of the clamped input (computed once per pattern)
vars == <<E, M, p, s, lov, hiv>>

Init == E = 0 /\ M = 0 /\ p = -1 /\ s = -1 /\ lov = 0 /\ hiv = 0
PickFormat == E = 0 /\ E' \in 2 .. HE /\ M' \in 0 .. HM /\ UNCHANGED <<p, s, lov, hiv>>
PickPattern ==
  /\ E # 0 /\ p = -1 /\ p' \in FinitePats /\ InScope(E, p') /\ UNCHANGED <<E, M, s>>
  /\ LET x == Min2(V2(p'), MaxF[<<E, M>>])  sq == RepSeqF[<<E, M>>]  i == BS(sq, x, 1, Len(sq))
     IN lov' = sq[i] /\ hiv' = (IF sq[i] = x THEN x ELSE sq[i + 1])
PickS == p >= 0 /\ s = -1 /\ s' \in ((IF "nearest" \in Modes THEN {0} ELSE {}) \cup (IF "stoch" \in Modes THEN 1 .. (HM - M) ELSE {})) /\ UNCHANGED <<E, M, p, lov, hiv>>
Next == PickFormat \/ PickPattern \/ PickS
Spec == Init /\ [][Next]_vars
Ready == s >= 0

\* the algorithm with optional named deviations
OffN == IF "round_up" \in Legacy THEN Pow2(HM - M) - 1 ELSE OffNearest(M)
OffS(r) == IF "no_bias_correction" \in Legacy THEN r * Pow2(HM - M - s) ELSE OffStoch(M, s, r)
PreClip(x) == IF "no_clip" \in Legacy THEN x ELSE Clip(E, M, x)
Q(off, x) == Up(E, AddMask(M, off, Down(E, PreClip(x))))
qn == Q(OffN, p)

R == RepF[<<E, M>>]
xv == Min2(V2(p), MaxF[<<E, M>>])

\* ---- C13 at value level
NearestValue(res) ==
  /\ V2(res) \in {lov, hiv}
  /\ (Abs(xv - V2(res)) - Min2(xv - lov, hiv - xv)) * Pow2(HM - M) <= (hiv - lov)
NearestOK == (Ready /\ s = 0) => LET q0 == qn IN NearestValue(q0)
SaturatesOK == (Ready /\ s = 0 /\ V2(p) >= MaxF[<<E, M>>]) => V2(qn) = MaxF[<<E, M>>]
IdempotentOK == (Ready /\ s = 0) => LET q0 == qn IN Q(OffN, q0) = q0
MonotoneOK == (Ready /\ s = 0 /\ p + 1 \in FinitePats /\ InScope(E, p + 1)) => Q(OffN, p + 1) >= qn
FixedPointOK == (Ready /\ s = 0 /\ V2(p) \in R) => qn = p
RangeOK == Ready =>
  /\ V2(PMax(E, M)) = MaxF[<<E, M>>]
  /\ MinNormF[<<E, M>>] \in R /\ MinPosF[<<E, M>>] = Unit(E, M)

\* ---- bridging: pattern-level predicates of module Quantise say the same as the value level
BridgeCands == LET q0 == qn IN {V2Inv[lov], V2Inv[hiv]} \cup {q0, (IF q0 > 0 THEN q0 - 1 ELSE 0), q0 + 1}
BridgeOK == (Ready /\ s = 0) =>
  \A res \in BridgeCands :
     /\ Nearest(E, M, p, res) <=> NearestValue(res)
     /\ Neighbour(E, M, p, res) <=> (V2(res) \in {lov, hiv})
     /\ Representable(E, M, res) <=> (V2(res) \in R)
PatternOK == (Ready /\ s = 0) => LET q0 == qn IN Nearest(E, M, p, q0) /\ Representable(E, M, q0) /\ Saturates(E, M, p, q0)

\* ---- C14, all draws enumerated
Draws == 0 .. Pow2(s) - 1
RUp(r) == V2(Q(OffS(r), p)) > lov
UpSet == {r \in Draws : RUp(r)}
StochNeighbourOK == (Ready /\ s > 0) => \A r \in Draws : V2(Q(OffS(r), p)) \in {lov, hiv}
StochFixedOK == (Ready /\ s > 0 /\ xv \in R) => \A r \in Draws : V2(Q(OffS(r), p)) = xv
StochMonotoneOK == (Ready /\ s > 0) => \A r \in Draws : (r + 1 \in Draws /\ RUp(r)) => RUp(r + 1)
\* value-level proportionality: |count/2^s - (x-lo)/(hi-lo)| <= 2^-(s+1) (+ 2^-(HM-M+1) if the prescale rounds)
Inexact == ExactQuot(E, Clip(E, M, p))[2] # 0
StochCountValueOK == (Ready /\ s > 0 /\ hiv > lov /\ (hiv - lov) * Pow2(s + 1) < Pow2(30)) =>
  LET c == Cardinality(UpSet)  w == hiv - lov
  IN /\ 2 * Abs(c * w - Pow2(s) * (xv - lov)) * Pow2(HM - M) <= w * Pow2(HM - M) + (IF Inexact THEN w * Pow2(s) ELSE 0)
     /\ (s = HM - M /\ ~Inexact) => c * w = Pow2(s) * (xv - lov)
StochCountPatternOK == (Ready /\ s > 0) => CountOK(E, M, s, p, IF xv \in R THEN 0 ELSE Cardinality(UpSet))
=============================================================================
