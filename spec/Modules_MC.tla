----------------------------- MODULE Modules_MC -----------------------------
(* Enumerates every (module, option assignment); checks the table and emits each configuration with its expectation. *)
EXTENDS Modules, Json
CONSTANT Emit
VARIABLES m, cfg, todo
vars == <<m, cfg, todo>>
Init == m = "" /\ cfg = [x \in {} |-> ""] /\ todo = {}
PickModule == m = "" /\ \E mm \in LeafModules : m' = mm /\ cfg' = [x \in {} |-> ""] /\ todo' = DOMAIN Opts(mm)
PickOption == m # "" /\ todo # {} /\ LET o == CHOOSE x \in todo : TRUE IN
                \E v \in Opts(m)[o] : cfg' = [x \in DOMAIN cfg \cup {o} |-> IF x = o THEN v ELSE cfg[x]] /\ todo' = todo \ {o} /\ UNCHANGED m
Spec == Init /\ [][PickModule \/ PickOption]_vars
Complete == m # "" /\ todo = {}
TableOK == m # "" => HonouredOrRejected(m)
TagsOK == Complete => TagsKnown(m, cfg)
ContainersOK ==
  /\ Wrap(<<[tagged |-> TRUE, depth |-> 0], [tagged |-> TRUE, depth |-> 0]>>) = [ok |-> TRUE, depth |-> 2]
  /\ ~Wrap(<<[tagged |-> TRUE, depth |-> 0], [tagged |-> FALSE, depth |-> 0]>>).ok
  /\ ~Wrap(<<[tagged |-> TRUE, depth |-> 3]>>).ok
EmitCfg == (Complete /\ Emit) => PrintT(<<"MODCFG", ToJson([module |-> m, cfg |-> cfg, accept |-> Accepts(m, cfg), func |-> Func(m), args |-> ArgMap(m), params |-> Params(m, cfg)])>>)
=============================================================================
