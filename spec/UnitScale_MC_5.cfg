CONSTANTS K = 5  Legacy = {}
SPECIFICATION Spec
INVARIANT AlgoRefinesRecipe
INVARIANT MatchingIsTermEquality
