------------------------------ MODULE Validate ------------------------------
(***************************************************************************)
(* unit_scaling.docs._validate: the wrapper that rejects non-default values *)
(* of arguments the library does not implement (part of C01: "an argument   *)
(* the library does not implement is rejected with an error rather than     *)
(* silently ignored" -- however the argument is passed).                    *)
(* A signature is a sequence of [name, hasDefault]; a call binds the first  *)
(* Len(pos) parameters positionally and some others by keyword; each bound  *)
(* value is "default", "other" (a non-default value that is truthy) or      *)
(* "falsy" (a non-default value that is None / False / 0 / empty: e.g.      *)
(* size_average=False where the default is None, alpha=0 where it is 1).    *)
(* A falsy value is a request like any other: it is not "switched off".     *)
(***************************************************************************)
EXTENDS Integers, Sequences, FiniteSets, TLC
CONSTANT Legacy

Names(sig) == {sig[k].name : k \in 1 .. Len(sig)}
\* decoration time: every unsupported argument must exist and have a default
DecorateOK(sig, unsupported) == \A u \in unsupported : \E k \in 1 .. Len(sig) : sig[k].name = u /\ sig[k].hasDefault
\* call: pos = sequence of values for the first parameters, kw = function name -> value
Bound(sig, pos, kw) == [n \in {sig[k].name : k \in 1 .. Len(pos)} \cup DOMAIN kw |->
                          IF \E k \in 1 .. Len(pos) : sig[k].name = n THEN pos[CHOOSE k \in 1 .. Len(pos) : sig[k].name = n] ELSE kw[n]]
Rejects(sig, unsupported, pos, kw) ==
  LET b == IF "keywords_only" \in Legacy THEN kw ELSE Bound(sig, pos, kw)
  IN \E n \in DOMAIN b : n \in unsupported /\ (IF "falsy_is_off" \in Legacy THEN b[n] = "other" ELSE b[n] # "default")
\* what the property demands: rejected iff some unsupported parameter receives a non-default value, by position or by keyword
MustReject(sig, unsupported, pos, kw) ==
  \/ \E k \in 1 .. Len(pos) : sig[k].name \in unsupported /\ pos[k] # "default"
  \/ \E n \in DOMAIN kw : n \in unsupported /\ kw[n] # "default"
=============================================================================
