CONSTANTS MaxDim = 5  Legacy = {"conv_drops_kernel"}
SPECIFICATION Spec
INVARIANT UnitScaleOK
INVARIANT CountsAgree
INVARIANT ResidualOK
INVARIANT ReadoutOK
INVARIANT ScalesPositive
INVARIANT TablesOK
INVARIANT MemoOK
