---------------------------- MODULE ResidualRule ----------------------------
(***************************************************************************)
(* The default transformer residual scaling rule (C07) in exact rationals  *)
(* of SQUARED quantities.                                                   *)
(*   branches 0 .. L-1 alternate attention (even) / MLP (odd), L = 2*layers *)
(*   x_{i+1} = (x_i + tau_i f_i(x_i)) / sqrt(1 + tau_i^2)                   *)
(* With S_i = L/2 + #attn(<i) * a2 + #mlp(<i) * m2 (running sum of squared  *)
(* contributions in units where the embedding contributes L/2) the rule is  *)
(* tau_i^2 = alpha_i^2 / S_i, and everything follows from the one-step      *)
(* lemma (1 + tau_i^2) * S_i = S_{i+1}.                                     *)
(***************************************************************************)
EXTENDS Rat, Sequences

RSq(a) == RMul(a, a)
AlphaMlp2(mult, ratio) == RMul(RSq(mult), RDiv(RInt(2), RAdd(ROne, RSq(ratio))))
AlphaAttn2(mult, ratio) == RMul(RSq(ratio), AlphaMlp2(mult, ratio))
NAttn(i) == (i + 1) \div 2
NMlp(i) == i \div 2
IsAttn(i) == i % 2 = 0
Alpha2(mult, ratio, i) == IF IsAttn(i) THEN AlphaAttn2(mult, ratio) ELSE AlphaMlp2(mult, ratio)
S(mult, ratio, i, L) ==
  RAdd(R(L, 2), RAdd(RMul(RInt(NAttn(i)), AlphaAttn2(mult, ratio)), RMul(RInt(NMlp(i)), AlphaMlp2(mult, ratio))))
Tau2(mult, ratio, i, L) == RDiv(Alpha2(mult, ratio, i), S(mult, ratio, i, L))

\* wiring of TransformerStack: layer k (0-based) gets (mhsa_tau, mlp_tau)
StackTaus2(mult, ratio, layers) ==
  [k \in 1 .. layers |-> <<Tau2(mult, ratio, 2 * (k - 1), 2 * layers), Tau2(mult, ratio, 2 * (k - 1) + 1, 2 * layers)>>]

\* explicit (non-telescoped) squared contribution of branch k to the final output
RECURSIVE Keep2(_, _, _, _)     \* prod_{j = from .. L-1} 1 / (1 + tau_j^2)
Keep2(mult, ratio, from, L) ==
  IF from >= L THEN ROne
  ELSE RMul(RInv(RAdd(ROne, Tau2(mult, ratio, from, L))), Keep2(mult, ratio, from + 1, L))
Contribution2(mult, ratio, k, L) ==
  RMul(RDiv(Tau2(mult, ratio, k, L), RAdd(ROne, Tau2(mult, ratio, k, L))), Keep2(mult, ratio, k + 1, L))
Embedding2(mult, ratio, L) == Keep2(mult, ratio, 0, L)
RECURSIVE SumC(_, _, _, _, _)
SumC(mult, ratio, k, L, parity) ==   \* sum of Contribution2 over branches >= k with k % 2 = parity
  IF k >= L THEN <<0, 1>>
  ELSE RAdd(IF k % 2 = parity THEN Contribution2(mult, ratio, k, L) ELSE <<0, 1>>, SumC(mult, ratio, k + 1, L, parity))
=============================================================================
