CONSTANTS Legacy = {}
SPECIFICATION Spec
