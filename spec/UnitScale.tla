------------------------------ MODULE UnitScale ------------------------------
(***************************************************************************)
(* unit_scaling.transforms.unit_scale (C16).                               *)
(*                                                                         *)
(* Graph representation: G = [nodes, order] -- `nodes` is a sequence       *)
(* indexed by node id (ids are never reused, an erased node keeps its slot *)
(* with empty args), `order` the list order of the live ids.               *)
(*   node = [op, tgt, args, kw], arg = [k |-> "n", n |-> id] |             *)
(*          [k |-> "c", c |-> text] | [k |-> "l", l |-> <<arg...>>]        *)
(*   kw   = sequence of [key, val]                                         *)
(*                                                                         *)
(* ALGORITHM: the passes of unit_scaling_backend, one loop iteration per   *)
(* Step (FX semantics: replace_node_with_function creates a fresh node at  *)
(* the old position, redirects all uses, erases the old node; iteration    *)
(* continues after the replaced node):                                     *)
(*   P1 replace mapped targets (user map first)   P2 dependency snapshot   *)
(*   P3 classify adds (residual or plain)         P3b replace plain adds   *)
(*   P4 residual_split / getitem / residual_add   P5 unconstrain           *)
(* Legacy deviations model the code before the fix.                        *)
(*                                                                         *)
(* RECIPE: the User-Guide hand conversion as an order-independent map from *)
(* the input graph to a term; AlgoRefinesRecipe compares output terms.     *)
(***************************************************************************)
EXTENDS Integers, Sequences, FiniteSets, TLC

CONSTANT Legacy

N(id) == [k |-> "n", n |-> id]
C(s) == [k |-> "c", c |-> s]

\* torch function -> unit-scaled counterpart (by name, as functional._gen_torch_function_map builds it)
\* an operation is what it computes, not how it is spelled: a @ b (operator.matmul) is a matmul, torch.softmax a softmax, and
\* torch.rms_norm -- what TorchDynamo emits for nn.RMSNorm / F.rms_norm -- an rms_norm (before the fix these three spellings were
\* not keys of the library's map: Legacy "fewer_spellings")
Spellings == {"op.matmul", "torch.softmax", "torch.rms_norm"}
TorchMapDom == {"F.linear", "F.gelu", "F.silu", "F.softmax", "torch.matmul", "F.dropout", "F.layer_norm", "F.rms_norm",
                "F.embedding", "torch.conv1d", "F.scaled_dot_product_attention", "F.cross_entropy", "F.mse_loss", "torch.add"}
               \cup (IF "fewer_spellings" \in Legacy THEN {} ELSE Spellings)
UName(t) ==
  CASE t = "F.linear" -> "U.linear" [] t = "F.gelu" -> "U.gelu" [] t = "F.silu" -> "U.silu" [] t = "F.softmax" -> "U.softmax"
    [] t = "torch.matmul" -> "U.matmul" [] t = "F.dropout" -> "U.dropout" [] t = "F.layer_norm" -> "U.layer_norm"
    [] t = "F.rms_norm" -> "U.rms_norm" [] t = "F.embedding" -> "U.embedding" [] t = "torch.conv1d" -> "U.conv1d"
    [] t = "F.scaled_dot_product_attention" -> "U.scaled_dot_product_attention" [] t = "F.cross_entropy" -> "U.cross_entropy"
    [] t = "F.mse_loss" -> "U.mse_loss" [] t = "torch.add" -> "U.add"
    [] t = "op.matmul" -> "U.matmul" [] t = "torch.softmax" -> "U.softmax" [] t = "torch.rms_norm" -> "U.rms_norm" [] OTHER -> t
\* every way of writing an addition: a + b, a += b, torch.add(a, b), a.add(b), a.add_(b)
AddTargets == {"op.add", "op.iadd", "torch.add", "m:add", "m:add_"}
SelfAttnTargets == {"F.scaled_dot_product_attention", "U.scaled_dot_product_attention", "F.softmax", "U.softmax", "torch.softmax"}
HasConstraintParam == {"U.gelu", "U.silu", "U.softmax", "U.matmul", "U.linear", "U.linear_readout", "U.conv1d", "U.add"}

\* user replacement map: sequence of <<from, to>>
UserTo(umap, t) == LET hits == {k \in 1 .. Len(umap) : umap[k][1] = t} IN IF hits = {} THEN "" ELSE umap[CHOOSE k \in hits : TRUE][2]
MapT(umap, t) == IF UserTo(umap, t) # "" THEN UserTo(umap, t) ELSE UName(t)

RECURSIVE ArgNodes(_)
ArgNodes(a) == IF a.k = "n" THEN {a.n}
               ELSE IF a.k = "l" THEN UNION {ArgNodes(a.l[i]) : i \in DOMAIN a.l}
               ELSE {}
InputsIn(nd, id) == UNION ({ArgNodes(nd[id].args[i]) : i \in DOMAIN nd[id].args}
                        \cup {ArgNodes(nd[id].kw[i].val) : i \in DOMAIN nd[id].kw})
RECURSIVE SubstArg(_, _, _)
SubstArg(a, old, new) ==
  IF a.k = "n" THEN (IF a.n = old THEN N(new) ELSE a)
  ELSE IF a.k = "l" THEN [a EXCEPT !.l = [i \in DOMAIN a.l |-> SubstArg(a.l[i], old, new)]]
  ELSE a
SubstNode(r, old, new) ==
  [r EXCEPT !.args = [i \in DOMAIN r.args |-> SubstArg(r.args[i], old, new)],
            !.kw = [i \in DOMAIN r.kw |-> [r.kw[i] EXCEPT !.val = SubstArg(r.kw[i].val, old, new)]]]

LiveOf(G) == {G.order[i] : i \in DOMAIN G.order}
UsersOf(G, id) == {u \in LiveOf(G) : id \in InputsIn(G.nodes, u)}
PosOf(G, id) == CHOOSE i \in DOMAIN G.order : G.order[i] = id
NextOf(G, id) == IF PosOf(G, id) = Len(G.order) THEN 0 ELSE G.order[PosOf(G, id) + 1]
OutputOf(G) == CHOOSE id \in LiveOf(G) : G.nodes[id].op = "output"

\* replace_node_with_function
ReplaceNode(G, src, rec) ==
  LET new == Len(G.nodes) + 1
      nd1 == [i \in DOMAIN G.nodes |-> IF i = src THEN [G.nodes[i] EXCEPT !.args = <<>>, !.kw = <<>>] ELSE SubstNode(G.nodes[i], src, new)]
  IN [G |-> [nodes |-> Append(nd1, rec), order |-> [i \in DOMAIN G.order |-> IF G.order[i] = src THEN new ELSE G.order[i]]], new |-> new]
InsertAfter(ord, after, id) == LET p == CHOOSE i \in DOMAIN ord : ord[i] = after
                               IN SubSeq(ord, 1, p) \o <<id>> \o SubSeq(ord, p + 1, Len(ord))

RECURSIVE AncIn(_, _)
AncIn(nd, id) == LET ins == InputsIn(nd, id) IN ins \cup UNION {AncIn(nd, i) : i \in ins}
\* the same as a table computed once in list order (inputs precede their users): anc[id] = AncIn(nd, id)
AncTable(G) ==
  LET RECURSIVE AT(_, _)
      AT(i, acc) == IF i > Len(G.order) THEN acc
                    ELSE LET id == G.order[i]  ins == InputsIn(G.nodes, id)
                             a == ins \cup UNION {acc[j] : j \in ins}
                         IN AT(i + 1, [x \in DOMAIN acc \cup {id} |-> IF x = id THEN a ELSE acc[x]])
  IN AT(1, [x \in {} |-> {}])
\* _add_dependency_meta: only nodes the output depends on get a set
AllDeps(G) == LET anc == AncTable(G)  o == OutputOf(G)  reach == anc[o] \cup {o} IN [id \in reach |-> anc[id]]
DepsOf(deps, id) == IF id \in DOMAIN deps THEN deps[id] ELSE {}

\* _is_self_attention: targets met walking up from the residual operand, not expanding the skip node
RECURSIVE BranchTgts(_, _, _, _)
BranchTgts(G, skip, frontier, acc) ==
  IF frontier = {} THEN acc
  ELSE LET p == CHOOSE x \in frontier : TRUE IN
       IF p = skip THEN BranchTgts(G, skip, frontier \ {p}, acc)
       ELSE BranchTgts(G, skip, (frontier \ {p}) \cup InputsIn(G.nodes, p), acc \cup {G.nodes[p].tgt})
IsSA(G, skip, res) == BranchTgts(G, skip, InputsIn(G.nodes, res), {G.nodes[res].tgt}) \cap SelfAttnTargets # {}

ConstraintKw == <<[key |-> "constraint", val |-> C("None")]>>
PlainAdd(n) == IF "add_constraint_positional" \in Legacy
                 THEN [n EXCEPT !.tgt = "U.add", !.args = Append(n.args, C("None"))]
                 ELSE [n EXCEPT !.tgt = "U.add", !.kw = SelectSeq(n.kw, LAMBDA e : e.key # "constraint") \o ConstraintKw]

\* ------------------------------------------------------------ the algorithm as a step function on
\* s = [G, pc, cur, deps, rmeta, umap]
StartState(G, umap) == [G |-> G, pc |-> "P1", cur |-> G.order[1], deps |-> [x \in {} |-> {}], rmeta |-> [x \in {} |-> 0], umap |-> umap]
IsCall(n) == n.op = "call"

StepP1(s) ==
  IF s.cur = 0 THEN [s EXCEPT !.pc = "P2"]
  ELSE LET n == s.G.nodes[s.cur] IN
       \* additions are left for the classification of P3 (before the fix torch.add was mapped to U.add right here, so
       \* torch.add(x, f(x)) was never recognised as a residual connection: Legacy "torch_add_mapped_first")
       IF IsCall(n) /\ (UserTo(s.umap, n.tgt) # "" \/ (n.tgt \in TorchMapDom /\ (n.tgt \notin AddTargets \/ "torch_add_mapped_first" \in Legacy)))
       THEN LET byUser == UserTo(s.umap, n.tgt) # ""
                \* F.softmax's private `_stacklevel` (passed by nn.Softmax) is not an argument of U.softmax: dropped by the built-in map
                kw2 == IF byUser THEN n.kw ELSE SelectSeq(n.kw, LAMBDA e : e.key # "_stacklevel")
                r == ReplaceNode(s.G, s.cur, [n EXCEPT !.tgt = MapT(s.umap, n.tgt), !.kw = kw2])
            IN [s EXCEPT !.G = r.G, !.cur = NextOf(r.G, r.new)]
       ELSE [s EXCEPT !.cur = NextOf(s.G, s.cur)]
StepP2(s) == [s EXCEPT !.deps = AllDeps(s.G), !.pc = "P3", !.cur = s.G.order[1]]
StepP3(s) ==
  IF s.cur = 0 THEN [s EXCEPT !.pc = IF "stale_deps" \in Legacy THEN "P4" ELSE "P3b", !.cur = s.G.order[1]]
  ELSE LET n == s.G.nodes[s.cur] IN
       IF IsCall(n) /\ n.tgt \in AddTargets
       THEN LET isres == /\ Len(n.args) = 2 /\ n.args[1].k = "n" /\ n.args[2].k = "n"
                         /\ (n.args[1].n \in DepsOf(s.deps, n.args[2].n) \/ n.args[2].n \in DepsOf(s.deps, n.args[1].n))
            IN IF isres
               THEN LET l == n.args[1].n  r == n.args[2].n  linr == l \in DepsOf(s.deps, r)
                        skip == IF linr THEN l ELSE r   res == IF linr THEN r ELSE l
                        m == [idx |-> IF linr THEN 1 ELSE 0, sa |-> IsSA(s.G, skip, res)]
                    IN [s EXCEPT !.rmeta = [x \in DOMAIN s.rmeta \cup {s.cur} |-> IF x = s.cur THEN m ELSE s.rmeta[x]], !.cur = NextOf(s.G, s.cur)]
               ELSE IF "stale_deps" \in Legacy      \* before the fix: replaced right away, while classification continues
                    THEN LET r == ReplaceNode(s.G, s.cur, PlainAdd(n)) IN [s EXCEPT !.G = r.G, !.cur = NextOf(r.G, r.new)]
                    ELSE [s EXCEPT !.cur = NextOf(s.G, s.cur)]
       ELSE [s EXCEPT !.cur = NextOf(s.G, s.cur)]
StepP3b(s) ==
  IF s.cur = 0 THEN [s EXCEPT !.pc = "P4", !.cur = s.G.order[1]]
  ELSE LET n == s.G.nodes[s.cur] IN
       IF IsCall(n) /\ n.tgt \in AddTargets /\ s.cur \notin DOMAIN s.rmeta
       THEN LET r == ReplaceNode(s.G, s.cur, PlainAdd(n)) IN [s EXCEPT !.G = r.G, !.cur = NextOf(r.G, r.new)]
       ELSE [s EXCEPT !.cur = NextOf(s.G, s.cur)]
StepP4(s) ==
  IF s.cur = 0 THEN [s EXCEPT !.pc = "P5"]
  ELSE IF s.cur \in DOMAIN s.rmeta
  THEN LET m == s.rmeta[s.cur]  n == s.G.nodes[s.cur]
           res == n.args[m.idx + 1]  skip == n.args[(1 - m.idx) + 1].n
           tau == IF m.sa THEN "0.01" ELSE "0.5"
           olds == UsersOf(s.G, skip) \ {s.cur}
           k == Len(s.G.nodes)   split == k + 1   g0 == k + 2   g1 == k + 3
           nd1 == [i \in DOMAIN s.G.nodes |-> IF i \in olds THEN SubstNode(s.G.nodes[i], skip, g0) ELSE s.G.nodes[i]]
           nd2 == nd1 \o << [op |-> "call", tgt |-> "U.residual_split", args |-> <<N(skip), C(tau)>>, kw |-> <<>>],
                            [op |-> "call", tgt |-> "op.getitem", args |-> <<N(split), C("0")>>, kw |-> <<>>],
                            [op |-> "call", tgt |-> "op.getitem", args |-> <<N(split), C("1")>>, kw |-> <<>>] >>
           ord2 == InsertAfter(InsertAfter(InsertAfter(s.G.order, skip, split), split, g0), split, g1)
           \* the residual operand was read before the re-pointing; it is substituted like every other user of skip
           res2 == IF res.k = "n" /\ res.n \in olds THEN res ELSE res
           r == ReplaceNode([nodes |-> nd2, order |-> ord2], s.cur,
                            [op |-> "call", tgt |-> "U.residual_add", args |-> <<res2, N(g1), C(tau)>>, kw |-> <<>>])
       IN [s EXCEPT !.G = r.G, !.cur = NextOf(r.G, r.new)]
  ELSE [s EXCEPT !.cur = NextOf(s.G, s.cur)]
StepP5(s) ==
  LET d == AllDeps(s.G)
      radds == {id \in LiveOf(s.G) : s.G.nodes[id].tgt = "U.residual_add"}
      marked == radds \cup UNION {DepsOf(d, id) : id \in radds}
      nd == [i \in DOMAIN s.G.nodes |->
               IF i \in LiveOf(s.G) /\ i \notin marked /\ IsCall(s.G.nodes[i]) /\ s.G.nodes[i].tgt \in HasConstraintParam
               THEN [s.G.nodes[i] EXCEPT !.kw = SelectSeq(@, LAMBDA e : e.key # "constraint") \o ConstraintKw]
               ELSE s.G.nodes[i]]
  IN [s EXCEPT !.G = [nodes |-> nd, order |-> s.G.order], !.pc = "Done", !.deps = d]
Step(s) == CASE s.pc = "P1" -> StepP1(s) [] s.pc = "P2" -> StepP2(s) [] s.pc = "P3" -> StepP3(s)
             [] s.pc = "P3b" -> StepP3b(s) [] s.pc = "P4" -> StepP4(s) [] s.pc = "P5" -> StepP5(s) [] OTHER -> s
RECURSIVE RunAlgo(_)
RunAlgo(s) == IF s.pc = "Done" THEN s ELSE RunAlgo(Step(s))

\* ------------------------------------------------------------ recipe context, computed ONCE per input graph
\* (TLC re-evaluates operator applications; everything the recipe needs is tabulated here)
Ctx(G0, umap) ==
  LET anc == AncTable(G0)
      isadd(id) == IsCall(G0.nodes[id]) /\ G0.nodes[id].tgt \in AddTargets
      isres(id) == /\ isadd(id) /\ Len(G0.nodes[id].args) = 2 /\ G0.nodes[id].args[1].k = "n" /\ G0.nodes[id].args[2].k = "n"
                   /\ LET l == G0.nodes[id].args[1].n  r == G0.nodes[id].args[2].n IN l \in anc[r] \/ r \in anc[l]
      res == {id \in LiveOf(G0) : isres(id)}
      skip == [r \in res |-> LET l == G0.nodes[r].args[1].n  q == G0.nodes[r].args[2].n IN IF l \in anc[q] THEN l ELSE q]
      rop == [r \in res |-> LET l == G0.nodes[r].args[1].n  q == G0.nodes[r].args[2].n IN IF l \in anc[q] THEN q ELSE l]
      branch(r) == LET RECURSIVE W(_, _)
                       W(fr, acc) == IF fr = {} THEN acc
                                     ELSE LET p == CHOOSE x \in fr : TRUE IN
                                          IF p = skip[r] \/ p \in acc THEN W(fr \ {p}, acc) ELSE W((fr \ {p}) \cup InputsIn(G0.nodes, p), acc \cup {p})
                   IN W(InputsIn(G0.nodes, rop[r]), {rop[r]})
      tau == [r \in res |-> IF \E n \in branch(r) : MapT(umap, G0.nodes[n].tgt) \in SelfAttnTargets THEN "0.01" ELSE "0.5"]
      underRes == UNION {anc[r] : r \in res}
  IN [anc |-> anc, adds |-> {id \in LiveOf(G0) : isadd(id)}, res |-> res, skip |-> skip, rop |-> rop, tau |-> tau, underRes |-> underRes]

\* ------------------------------------------------------------ the recipe, on the INPUT graph G0 (all ids live)
G0In(G0, id) == InputsIn(G0.nodes, id)
Anc0(G0, id) == AncIn(G0.nodes, id)
IsAdd0(G0, id) == IsCall(G0.nodes[id]) /\ G0.nodes[id].tgt \in AddTargets
IsRes0(G0, id) == /\ IsAdd0(G0, id) /\ Len(G0.nodes[id].args) = 2 /\ G0.nodes[id].args[1].k = "n" /\ G0.nodes[id].args[2].k = "n"
                  /\ LET l == G0.nodes[id].args[1].n  r == G0.nodes[id].args[2].n IN l \in Anc0(G0, r) \/ r \in Anc0(G0, l)
Skip0(G0, id) == LET l == G0.nodes[id].args[1].n  r == G0.nodes[id].args[2].n IN IF l \in Anc0(G0, r) THEN l ELSE r
Res0(G0, id) == LET l == G0.nodes[id].args[1].n  r == G0.nodes[id].args[2].n IN IF l \in Anc0(G0, r) THEN r ELSE l
ResAdds0(G0) == {id \in LiveOf(G0) : IsRes0(G0, id)}
Users0(G0, id) == {u \in LiveOf(G0) : id \in G0In(G0, u)}
\* ops on the branch: everything the residual operand depends on, not looking through the skip tensor
BranchAll0(G0, a) ==
  LET RECURSIVE W(_, _)
      W(fr, acc) == IF fr = {} THEN acc
                    ELSE LET p == CHOOSE x \in fr : TRUE IN
                         IF p = Skip0(G0, a) THEN W(fr \ {p}, acc) ELSE W((fr \ {p}) \cup G0In(G0, p), acc \cup {p})
  IN W(G0In(G0, Res0(G0, a)), {Res0(G0, a)})
Tau0(G0, umap, a) == IF \E n \in BranchAll0(G0, a) : MapT(umap, G0.nodes[n].tgt) \in SelfAttnTargets THEN "0.01" ELSE "0.5"
Unconstrained0(G0, id) == ~ \E a \in ResAdds0(G0) : id \in Anc0(G0, a)
\* the family the property speaks about: each skip's other consumers lie on its own branch; no dead nodes
WellNested(G0) == LET cx == Ctx(G0, <<>>) IN \A a \in cx.res : Users0(G0, cx.skip[a]) \ {a} \subseteq (cx.anc[cx.rop[a]] \cup {cx.rop[a]})
AllLive0(G0) == LET anc == AncTable(G0) IN \A id \in LiveOf(G0) : id = OutputOf(G0) \/ id \in anc[OutputOf(G0)] \/ G0.nodes[id].op \in {"placeholder", "get_attr"}

RECURSIVE RT(_, _, _), ArgT(_, _, _, _)
SplitT(G0, umap, r) == <<"call", "U.residual_split", <<RT(G0, umap, Skip0(G0, r)), C(Tau0(G0, umap, r))>>, <<>> >>
G0T(G0, umap, r) == <<"call", "op.getitem", <<SplitT(G0, umap, r), C("0")>>, <<>> >>
G1T(G0, umap, r) == <<"call", "op.getitem", <<SplitT(G0, umap, r), C("1")>>, <<>> >>
ArgT(G0, umap, id, a) ==
  IF a.k = "n" THEN
    LET rs == {r \in ResAdds0(G0) : Skip0(G0, r) = a.n /\ r # id} IN
    IF rs # {} THEN G0T(G0, umap, CHOOSE r \in rs : TRUE) ELSE RT(G0, umap, a.n)
  ELSE IF a.k = "l" THEN <<"list", [i \in DOMAIN a.l |-> ArgT(G0, umap, id, a.l[i])]>>
  ELSE a
KwT(G0, umap, id, kw) == [i \in DOMAIN kw |-> [key |-> kw[i].key, val |-> ArgT(G0, umap, id, kw[i].val)]]
RT(G0, umap, id) ==
  LET n == G0.nodes[id] IN
  IF n.op \in {"placeholder", "get_attr"} THEN <<"leaf", n.tgt>>
  ELSE IF n.op = "output" THEN <<"out", [i \in DOMAIN n.args |-> ArgT(G0, umap, id, n.args[i])]>>
  ELSE IF IsRes0(G0, id)
  THEN <<"call", "U.residual_add", <<ArgT(G0, umap, id, N(Res0(G0, id))), G1T(G0, umap, id), C(Tau0(G0, umap, id))>>, <<>> >>
  ELSE IF IsAdd0(G0, id)
  THEN <<"call", "U.add", [i \in DOMAIN n.args |-> ArgT(G0, umap, id, n.args[i])], KwT(G0, umap, id, SelectSeq(n.kw, LAMBDA e : e.key # "constraint")) \o ConstraintKw>>
  ELSE LET t == MapT(umap, n.tgt)
           kw == KwT(G0, umap, id, IF UserTo(umap, n.tgt) = "" /\ n.tgt \in TorchMapDom THEN SelectSeq(n.kw, LAMBDA e : e.key # "_stacklevel") ELSE n.kw)
           kw2 == IF t \in HasConstraintParam /\ Unconstrained0(G0, id) THEN SelectSeq(kw, LAMBDA e : e.key # "constraint") \o ConstraintKw ELSE kw
       IN <<"call", t, [i \in DOMAIN n.args |-> ArgT(G0, umap, id, n.args[i])], kw2>>
RecipeTerm(G0, umap) == RT(G0, umap, OutputOf(G0))

\* term of a (result) graph
RECURSIVE FT(_, _), FArg(_, _)
FArg(G, a) == IF a.k = "n" THEN FT(G, a.n) ELSE IF a.k = "l" THEN <<"list", [i \in DOMAIN a.l |-> FArg(G, a.l[i])]>> ELSE a
FT(G, id) == LET n == G.nodes[id] IN
  IF n.op \in {"placeholder", "get_attr"} THEN <<"leaf", n.tgt>>
  ELSE IF n.op = "output" THEN <<"out", [i \in DOMAIN n.args |-> FArg(G, n.args[i])]>>
  ELSE <<"call", n.tgt, [i \in DOMAIN n.args |-> FArg(G, n.args[i])], [i \in DOMAIN n.kw |-> [key |-> n.kw[i].key, val |-> FArg(G, n.kw[i].val)]]>>
GraphTerm(G) == FT(G, OutputOf(G))
\* executes: no call binds `constraint` twice (U.add(a, b, None, constraint=None))
Executes(G) == \A id \in LiveOf(G) : ~ (G.nodes[id].tgt = "U.add" /\ Len(G.nodes[id].args) >= 3 /\ \E i \in DOMAIN G.nodes[id].kw : G.nodes[id].kw[i].key = "constraint")
InFamily(G0) == WellNested(G0) /\ AllLive0(G0)

\* ------------------------------------------------------------ the recipe as a GRAPH of keyed nodes, and a
\* linear-time comparison with a result graph (terms grow exponentially with the sharing a residual block creates).
\* keys: <<"n", id>> node id of the input graph; <<"s", r>>, <<"g0", r>>, <<"g1", r>> the split / getitems of residual add r
RECURSIVE ArgKey(_, _, _)
ArgKey(cx, id, a) ==
  IF a.k = "n" THEN
    LET rs == {r \in cx.res : cx.skip[r] = a.n /\ r # id} IN
    IF rs # {} THEN <<"g0", CHOOSE r \in rs : TRUE>> ELSE <<"n", a.n>>
  ELSE IF a.k = "l" THEN <<"list", [i \in DOMAIN a.l |-> ArgKey(cx, id, a.l[i])]>>
  ELSE <<"c", a.c>>
KwKeys(cx, id, kw) == {<<kw[i].key, ArgKey(cx, id, kw[i].val)>> : i \in DOMAIN kw}
NoneKw == {<<"constraint", <<"c", "None">>>>}
DropConstraint(S) == {e \in S : e[1] # "constraint"}
RecipeSig(G0, umap, cx, key) ==
  IF key[1] = "s" THEN [tgt |-> "U.residual_split", args |-> <<<<"n", cx.skip[key[2]]>>, <<"c", cx.tau[key[2]]>>>>, kw |-> {}]
  ELSE IF key[1] = "g0" THEN [tgt |-> "op.getitem", args |-> <<<<"s", key[2]>>, <<"c", "0">>>>, kw |-> {}]
  ELSE IF key[1] = "g1" THEN [tgt |-> "op.getitem", args |-> <<<<"s", key[2]>>, <<"c", "1">>>>, kw |-> {}]
  ELSE LET id == key[2]  n == G0.nodes[id] IN
    IF n.op \in {"placeholder", "get_attr"} THEN [tgt |-> n.tgt, args |-> <<>>, kw |-> {}]
    ELSE IF n.op = "output" THEN [tgt |-> "output", args |-> [i \in DOMAIN n.args |-> ArgKey(cx, id, n.args[i])], kw |-> {}]
    ELSE IF id \in cx.res THEN [tgt |-> "U.residual_add", args |-> <<ArgKey(cx, id, N(cx.rop[id])), <<"g1", id>>, <<"c", cx.tau[id]>>>>, kw |-> {}]
    ELSE IF id \in cx.adds THEN [tgt |-> "U.add", args |-> [i \in DOMAIN n.args |-> ArgKey(cx, id, n.args[i])], kw |-> DropConstraint(KwKeys(cx, id, n.kw)) \cup NoneKw]
    ELSE LET t == MapT(umap, n.tgt)
             kw0 == KwKeys(cx, id, n.kw)
             kw == IF UserTo(umap, n.tgt) = "" /\ n.tgt \in TorchMapDom THEN {e \in kw0 : e[1] # "_stacklevel"} ELSE kw0 IN
         [tgt |-> t, args |-> [i \in DOMAIN n.args |-> ArgKey(cx, id, n.args[i])],
          kw |-> IF t \in HasConstraintParam /\ id \notin cx.underRes THEN DropConstraint(kw) \cup NoneKw ELSE kw]


\* Canonical recipe graph: identical signatures are one node (two gelu(x) in the input are the same term).
\* Keys are processed in dependency order: node id, then the split / getitems of every residual whose skip it is.
KeysInOrder(G0, cx) ==
  LET RECURSIVE F(_)
      F(i) == IF i > Len(G0.order) THEN <<>>
              ELSE LET id == G0.order[i]
                       rs == {r \in cx.res : cx.skip[r] = id}
                       RECURSIVE Sp(_)
                       Sp(S) == IF S = {} THEN <<>> ELSE LET r == CHOOSE x \in S : \A y \in S : x <= y IN <<<<"s", r>>, <<"g0", r>>, <<"g1", r>>>> \o Sp(S \ {r})
                   IN <<<<"n", id>>>> \o Sp(rs) \o F(i + 1)
  IN F(1)
RECURSIVE CanonArg(_, _)
CanonArg(c, a) == IF a[1] = "list" THEN <<"list", [i \in DOMAIN a[2] |-> CanonArg(c, a[2][i])]>> ELSE IF a[1] = "c" THEN a ELSE c[a]
CanonSig(c, sg) == [tgt |-> sg.tgt, args |-> [i \in DOMAIN sg.args |-> CanonArg(c, sg.args[i])], kw |-> {<<e[1], CanonArg(c, e[2])>> : e \in sg.kw}]
\* result [c |-> key -> canonical key, sig |-> canonical key -> canonical signature]
RECURSIVE CanonFrom(_, _, _, _, _, _)
CanonFrom(G0, umap, cx, keys, i, acc) ==
  IF i > Len(keys) THEN acc
  ELSE LET key == keys[i]
           sg == CanonSig(acc.c, RecipeSig(G0, umap, cx, key))
           same == {k \in DOMAIN acc.sig : acc.sig[k] = sg}
           rep == IF same = {} THEN key ELSE CHOOSE k \in same : TRUE
       IN CanonFrom(G0, umap, cx, keys, i + 1,
            [c |-> [k \in DOMAIN acc.c \cup {key} |-> IF k = key THEN rep ELSE acc.c[k]],
             sig |-> IF same = {} THEN [k \in DOMAIN acc.sig \cup {key} |-> IF k = key THEN sg ELSE acc.sig[k]] ELSE acc.sig])
Canon(G0, umap) == LET cx == Ctx(G0, umap) IN CanonFrom(G0, umap, cx, KeysInOrder(G0, cx), 1, [c |-> [k \in {} |-> <<>>], sig |-> [k \in {} |-> <<>>]])

\* match the nodes of a result graph R (ids = list positions, topologically ordered) to canonical recipe keys
RECURSIVE ObsArg(_, _)
ObsArg(m, a) == IF a.k = "n" THEN m[a.n] ELSE IF a.k = "l" THEN <<"list", [i \in DOMAIN a.l |-> ObsArg(m, a.l[i])]>> ELSE <<"c", a.c>>
ObsSig(m, n) == [tgt |-> IF n.op = "output" THEN "output" ELSE n.tgt, args |-> [i \in DOMAIN n.args |-> ObsArg(m, n.args[i])],
                 kw |-> {<<n.kw[i].key, ObsArg(m, n.kw[i].val)>> : i \in DOMAIN n.kw}]
Unmatched == <<"?", 0>>
RECURSIVE HasUnmatched(_)
HasUnmatched(a) == a = Unmatched \/ (a[1] = "list" /\ \E i \in DOMAIN a[2] : HasUnmatched(a[2][i]))
RECURSIVE MatchFrom(_, _, _, _)
MatchFrom(R, sigs, i, m) ==
  IF i > Len(R.nodes) THEN m
  ELSE LET sg == ObsSig(m, R.nodes[i])
           bad == (\E k \in DOMAIN sg.args : HasUnmatched(sg.args[k])) \/ (\E e \in sg.kw : HasUnmatched(e[2]))
           cands == IF bad THEN {} ELSE {key \in DOMAIN sigs : sigs[key] = sg}
       IN MatchFrom(R, sigs, i + 1, Append(m, IF cands = {} THEN Unmatched ELSE CHOOSE key \in cands : TRUE))
\* the result graph computes the recipe: its output node matches the recipe's (canonical) output node
MatchesRecipe(R, G0, umap) ==
  LET cn == Canon(G0, umap)
      m == MatchFrom(R, cn.sig, 1, <<>>)
      outs == {i \in 1 .. Len(R.nodes) : R.nodes[i].op = "output"} IN
  outs # {} /\ \A i \in outs : m[i] = cn.c[<<"n", OutputOf(G0)>>]
\* renumber a graph with erased slots to list positions (ids = positions)
Compact(G) ==
  LET pos == [id \in LiveOf(G) |-> PosOf(G, id)]
      RECURSIVE Ren(_)
      Ren(a) == IF a.k = "n" THEN N(pos[a.n]) ELSE IF a.k = "l" THEN [a EXCEPT !.l = [i \in DOMAIN a.l |-> Ren(a.l[i])]] ELSE a
  IN [nodes |-> [i \in 1 .. Len(G.order) |->
                   LET n == G.nodes[G.order[i]] IN [n EXCEPT !.args = [k \in DOMAIN n.args |-> Ren(n.args[k])],
                                                             !.kw = [k \in DOMAIN n.kw |-> [n.kw[k] EXCEPT !.val = Ren(n.kw[k].val)]]]],
      order |-> [i \in 1 .. Len(G.order) |-> i]]
ShapeSeq(G) == [i \in 1 .. Len(G.order) |-> LET n == G.nodes[G.order[i]] IN <<n.tgt, n.args, {<<n.kw[k].key, n.kw[k].val>> : k \in DOMAIN n.kw}>>]

=============================================================================
