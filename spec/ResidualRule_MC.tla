--------------------------- MODULE ResidualRule_MC ---------------------------
(* Exhaustive check of the rule's identities: the one-step lemma for every   *)
(* branch index of every depth in Depths x the (mult, ratio) grid; explicit  *)
(* contribution products for depths <= MaxExplicit.                          *)
EXTENDS ResidualRule, TLC

CONSTANTS LayerSet, MaxExplicit, Legacy
AllLayers == 1 .. 256

Grid == {<<1, 16>>, <<1, 4>>, <<1, 2>>, <<1, 1>>, <<3, 2>>, <<2, 1>>, <<4, 1>>, <<16, 1>>}

\* deviations for the non-vacuity self-test
T2(mult, ratio, i, L) ==
  IF "off_by_one" \in Legacy THEN RDiv(Alpha2(mult, ratio, i), S(mult, ratio, i + 1, L))
  ELSE IF "parity_swap" \in Legacy THEN RDiv(Alpha2(mult, ratio, i + 1), S(mult, ratio, i, L))
  ELSE Tau2(mult, ratio, i, L)

VARIABLES mu, ra, layers, i
vars == <<mu, ra, layers, i>>
Init == mu = <<0, 1>> /\ ra = <<0, 1>> /\ layers = 0 /\ i = -1
PickHyper == layers = 0 /\ mu' \in Grid /\ ra' \in Grid /\ layers' \in LayerSet /\ i' = -1
PickIndex == layers > 0 /\ i = -1 /\ i' \in 0 .. 2 * layers - 1 /\ UNCHANGED <<mu, ra, layers>>
Next == PickHyper \/ PickIndex
Spec == Init /\ [][Next]_vars
L == 2 * layers
Ready == i >= 0

AlphaSplit == layers > 0 =>
  /\ RDiv(RAdd(AlphaAttn2(mu, ra), AlphaMlp2(mu, ra)), RInt(2)) = RSq(mu)
  /\ RDiv(AlphaAttn2(mu, ra), AlphaMlp2(mu, ra)) = RSq(ra)
OneStep == Ready => RMul(RAdd(ROne, T2(mu, ra, i, L)), S(mu, ra, i, L)) = S(mu, ra, i + 1, L)
TauPositive == Ready => Tau2(mu, ra, i, L)[1] > 0 /\ IsRat(Tau2(mu, ra, i, L))
\* consequences of the lemma at the end of the stack (telescoped form)
Totals == layers > 0 =>
  LET sl == S(mu, ra, L, L)  e2 == RDiv(R(L, 2), sl)
      at == RDiv(RMul(RInt(layers), AlphaAttn2(mu, ra)), sl)
      ml == RDiv(RMul(RInt(layers), AlphaMlp2(mu, ra)), sl)
  IN /\ RAdd(e2, RAdd(at, ml)) = ROne
     /\ RDiv(at, ml) = RSq(ra)
     /\ RDiv(RDiv(RAdd(at, ml), RInt(2)), e2) = RSq(mu)
\* explicit products agree with the telescoped closed form (small depths)
Explicit == (Ready /\ layers <= MaxExplicit) =>
  /\ Contribution2(mu, ra, i, L) = RDiv(Alpha2(mu, ra, i), S(mu, ra, L, L))
  /\ (i = 0 => /\ RAdd(Embedding2(mu, ra, L), RAdd(SumC(mu, ra, 0, L, 0), SumC(mu, ra, 0, L, 1))) = ROne
               /\ RDiv(SumC(mu, ra, 0, L, 0), SumC(mu, ra, 0, L, 1)) = RSq(ra)
               /\ RDiv(RDiv(RAdd(SumC(mu, ra, 0, L, 0), SumC(mu, ra, 0, L, 1)), RInt(2)), Embedding2(mu, ra, L)) = RSq(mu))
  /\ (i + 2 < L => Contribution2(mu, ra, i, L) = Contribution2(mu, ra, i + 2, L))
=============================================================================
