----------------------------- MODULE TrackScales -----------------------------
(***************************************************************************)
(* Scale tracking (C18): instrumentation must be purely observational and  *)
(* the recorded metrics must be the statistics of the tensor that flowed   *)
(* and of the TOTAL gradient that reached it.                              *)
(*                                                                         *)
(* Part 1 -- a small reverse-mode interpreter.  A program is a sequence of *)
(* nodes [op, a, b, c] over integer vectors of length VecLen; arguments are *)
(* indices of earlier nodes.  Val gives forward values; Grad gives the      *)
(* total gradient of each node = sum over all its consumers of the          *)
(* consumer's vector-Jacobian product (+ the upstream gradient if it is an  *)
(* output).  Instrument() inserts the tracker (an identity, as the clone in *)
(* ScaleTrackingAutogradFunction) after every float node and re-points the  *)
(* consumers, exactly like run_node.  The recorded forward metric of node i *)
(* is the tracker's input, the recorded backward metric is the gradient     *)
(* arriving at the tracker's output.                                        *)
(*                                                                         *)
(* Part 2 -- Metrics as exact rationals from integer sums; used to validate *)
(* the metrics recorded by the real code against independently captured     *)
(* tensors.                                                                 *)
(***************************************************************************)
EXTENDS Integers, Sequences, FiniteSets, TLC

CONSTANTS VecLen, Legacy

Idx == 1 .. VecLen
Vec(f(_)) == [k \in Idx |-> f(k)]
Zero == [k \in Idx |-> 0]
FloatOps == {"input", "neg", "mul2", "relu", "add", "sub", "mul", "detach", "where", "track"}
IsFloat(n) == n.op \in FloatOps        \* "isneg" produces a bool mask

\* ---- forward
RECURSIVE Val(_, _)
Val(p, i) ==
  LET n == p[i] IN
  IF n.op = "input" THEN n.v
  ELSE IF n.op = "neg" THEN [k \in Idx |-> -Val(p, n.a)[k]]
  ELSE IF n.op = "mul2" THEN [k \in Idx |-> 2 * Val(p, n.a)[k]]
  ELSE IF n.op = "relu" THEN [k \in Idx |-> IF Val(p, n.a)[k] > 0 THEN Val(p, n.a)[k] ELSE 0]
  ELSE IF n.op = "add" THEN [k \in Idx |-> Val(p, n.a)[k] + Val(p, n.b)[k]]
  ELSE IF n.op = "sub" THEN [k \in Idx |-> Val(p, n.a)[k] - Val(p, n.b)[k]]
  ELSE IF n.op = "mul" THEN [k \in Idx |-> Val(p, n.a)[k] * Val(p, n.b)[k]]
  ELSE IF n.op = "detach" THEN Val(p, n.a)
  ELSE IF n.op = "isneg" THEN [k \in Idx |-> IF Val(p, n.a)[k] < 0 THEN 1 ELSE 0]
  ELSE IF n.op = "where" THEN [k \in Idx |-> IF Val(p, n.c)[k] = 1 THEN Val(p, n.a)[k] ELSE Val(p, n.b)[k]]
  ELSE \* "track": identity (a clone)
       Val(p, n.a)

\* does a gradient flow into node i at all (requires_grad propagation)
RECURSIVE NeedsGrad(_, _)
NeedsGrad(p, i) ==
  LET n == p[i] IN
  IF n.op = "input" THEN TRUE
  ELSE IF n.op \in {"detach", "isneg"} THEN FALSE
  ELSE IF n.op \in {"neg", "mul2", "relu", "track"} THEN NeedsGrad(p, n.a)
  ELSE NeedsGrad(p, n.a) \/ NeedsGrad(p, n.b)

\* contribution of consumer j to the gradient of its argument i, given the gradient g of j
VJP(p, j, i, g) ==
  LET n == p[j]
      one(slot) == \* contribution through one argument slot
        IF n.op = "neg" THEN [k \in Idx |-> -g[k]]
        ELSE IF n.op = "mul2" THEN [k \in Idx |-> 2 * g[k]]
        ELSE IF n.op = "relu" THEN [k \in Idx |-> IF Val(p, n.a)[k] > 0 THEN g[k] ELSE 0]
        ELSE IF n.op = "add" THEN g
        ELSE IF n.op = "sub" THEN (IF slot = "a" THEN g ELSE [k \in Idx |-> -g[k]])
        ELSE IF n.op = "mul" THEN (IF slot = "a" THEN [k \in Idx |-> g[k] * Val(p, n.b)[k]] ELSE [k \in Idx |-> g[k] * Val(p, n.a)[k]])
        ELSE IF n.op = "where" THEN (IF slot = "a" THEN [k \in Idx |-> IF Val(p, n.c)[k] = 1 THEN g[k] ELSE 0]
                                     ELSE [k \in Idx |-> IF Val(p, n.c)[k] = 1 THEN 0 ELSE g[k]])
        ELSE IF n.op = "track" THEN (IF "tracker_detaches" \in Legacy THEN Zero ELSE g)
        ELSE Zero          \* detach, isneg: no gradient
      ca == IF n.a = i THEN one("a") ELSE Zero
      cb == IF n.op \in {"add", "sub", "mul", "where"} /\ n.b = i THEN one("b") ELSE Zero
  IN [k \in Idx |-> ca[k] + cb[k]]

Consumers(p, i) == {j \in i + 1 .. Len(p) : p[j].op # "input" /\ (p[j].a = i \/ (p[j].op \in {"add", "sub", "mul", "where"} /\ p[j].b = i) \/ (p[j].op = "where" /\ p[j].c = i))}

\* total gradient of node i for outputs `outs` with upstream gradients up[o]
RECURSIVE Grad(_, _, _, _)
Grad(p, i, outs, up) ==
  LET own == IF i \in outs THEN up[i] ELSE Zero
      RECURSIVE SumC(_)
      SumC(S) == IF S = {} THEN Zero
                 ELSE LET j == CHOOSE x \in S : TRUE
                          c == IF NeedsGrad(p, j) THEN VJP(p, j, i, Grad(p, j, outs, up)) ELSE Zero
                          r == SumC(S \ {j})
                      IN [k \in Idx |-> c[k] + r[k]]
      s == SumC(Consumers(p, i))
  IN [k \in Idx |-> own[k] + s[k]]
\* is node i on a differentiable path to an output (so that its backward hook fires)
RECURSIVE Reaches(_, _, _)
Reaches(p, i, outs) == i \in outs \/ \E j \in Consumers(p, i) : NeedsGrad(p, j) /\ p[j].op \notin {"detach", "isneg"} /\ (p[j].op # "where" \/ p[j].c # i \/ p[j].a = i \/ p[j].b = i) /\ Reaches(p, j, outs)
GetsGrad(p, i, outs) == NeedsGrad(p, i) /\ Reaches(p, i, outs)

\* ---- instrumentation, as run_node does it: after node i (if float) comes tracker T(i); later nodes read T(i)
\* new index of original node i / of its tracker
NFloatBefore(p, i) == Cardinality({j \in 1 .. i - 1 : IsFloat(p[j])})
NewIdx(p, i) == i + NFloatBefore(p, i)
TrkIdx(p, i) == NewIdx(p, i) + 1
Ref(p, i) == IF "no_tracker_on_inputs" \in Legacy /\ p[i].op = "input" THEN NewIdx(p, i) ELSE IF IsFloat(p[i]) THEN TrkIdx(p, i) ELSE NewIdx(p, i)
Remap(p, n) == IF n.op = "input" THEN n
               ELSE [n EXCEPT !.a = Ref(p, n.a), !.b = IF n.b = 0 THEN 0 ELSE Ref(p, n.b), !.c = IF n.c = 0 THEN 0 ELSE Ref(p, n.c)]
Instrument(p) ==
  LET total == Len(p) + Cardinality({j \in 1 .. Len(p) : IsFloat(p[j])})
      src(m) == CHOOSE i \in 1 .. Len(p) : NewIdx(p, i) = m \/ (IsFloat(p[i]) /\ TrkIdx(p, i) = m)
  IN [m \in 1 .. total |->
        LET i == src(m) IN
        IF NewIdx(p, i) = m THEN Remap(p, p[i]) ELSE [op |-> "track", a |-> NewIdx(p, i), b |-> 0, c |-> 0, v |-> Zero]]

\* ---- C18 on the design
Observational(p, outs, up) ==
  LET q == Instrument(p)
      qouts == {Ref(p, o) : o \in outs}
      qup == [m \in 1 .. Len(q) |-> IF \E o \in outs : Ref(p, o) = m THEN up[CHOOSE o \in outs : Ref(p, o) = m] ELSE Zero]
  IN /\ \A i \in 1 .. Len(p) : Val(q, NewIdx(p, i)) = Val(p, i)                                      \* values unchanged
     /\ \A i \in 1 .. Len(p) : p[i].op = "input" => Grad(q, NewIdx(p, i), qouts, qup) = Grad(p, i, outs, up)   \* input gradients unchanged
     /\ \A i \in 1 .. Len(p) : IsFloat(p[i]) =>
          /\ Val(q, TrkIdx(p, i)) = Val(p, i)                                                         \* fwd metric source = the value that flowed
          /\ GetsGrad(p, i, outs) => Grad(q, TrkIdx(p, i), qouts, qup) = Grad(p, i, outs, up)         \* bwd metric source = TOTAL gradient
     /\ \A m \in 1 .. Len(q) : q[m].op = "track" => IsFloat(q[q[m].a])                                 \* never on non-float values

-----------------------------------------------------------------------------
\* Part 2: metrics from integer sums  s = [n, sabs, ssum, ssq, amax, amin]
\* recorded metric r = [mean_abs, abs_mean, var, abs_max, abs_min, numel] with rationals as <<num, den>>
RatEq(a, n, d) == a[1] * d = n * a[2]      \* a = n/d  (cross-multiplied; harness keeps numbers small)
Absv(x) == IF x < 0 THEN -x ELSE x
MetricsMatch(r, s) ==
  /\ r.numel = s.n
  /\ RatEq(r.mean_abs, s.sabs, s.n)
  /\ RatEq(r.abs_mean, Absv(s.ssum), s.n)
  /\ RatEq(r.abs_max, s.amax, 1)
  /\ RatEq(r.abs_min, s.amin, 1)
  /\ (s.n > 1 => RatEq(r.var, s.n * s.ssq - s.ssum * s.ssum, s.n * (s.n - 1)))     \* unbiased variance = std^2
=============================================================================
