SPECIFICATION Spec
