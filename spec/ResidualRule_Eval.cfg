SPECIFICATION Spec
