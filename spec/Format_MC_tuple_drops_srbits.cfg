CONSTANTS Legacy = {"tuple_drops_srbits"}  Emit = FALSE
SPECIFICATION Spec
INVARIANT RoundTripOK
INVARIANT Idempotent
INVARIANT EmitF
