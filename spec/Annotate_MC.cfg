CONSTANTS MaxLines = 4
SPECIFICATION Spec
INVARIANT InvTracked
INVARIANT InvNothingElse
INVARIANT InvDefOrder
