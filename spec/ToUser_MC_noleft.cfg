CONSTANTS N = 3  Emit = FALSE
SPECIFICATION Spec
INVARIANT InvNoLeftovers
