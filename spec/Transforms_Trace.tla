--------------------------- MODULE Transforms_Trace ---------------------------
(***************************************************************************)
(* Validates histories of real transforms / calls against module           *)
(* Transforms.  trace = sequence of steps                                  *)
(*   [a |-> "apply", m, kind, backends, rerun, disjoint, unchanged]         *)
(*   [a |-> "call",  m, ran, fp, unchanged]                                 *)
(* m indexes the modules in creation order (1 = the user's original).      *)
(* Observations: backends = kinds read off result.backends; ran = the      *)
(* unit-scaling / quantisation backends that actually ran during the call  *)
(* (from the library's log records); fp = id of the bitwise output+grads   *)
(* fingerprint (equal tensors <=> equal id; seeds and inputs are pinned);  *)
(* disjoint = no parameter storage shared with any other module;           *)
(* unchanged = every OTHER module's parameters, buffers are untouched.     *)
(* Gating clauses (the property): nothing else is modified, storage is     *)
(* disjoint, whatever ran is the canonical pipeline with every transform   *)
(* once, and the function computed depends only on the SET of transforms   *)
(* applied (so order, nesting depth, intermediate calls do not matter),     *)
(* not counting the lossless format simulation, which changes nothing.     *)
(* The backend list / flag bookkeeping is compared as model drift.         *)
(***************************************************************************)
EXTENDS Transforms, Json, IOUtils
Traces == JsonDeserialize(IOEnv.TRACE_FILE)
NT == Len(Traces)
SeqOf(js) == [i \in 1 .. Len(js) |-> js[i]]
SemanticSet(b) == {b[i] : i \in {j \in 1 .. Len(b) : b[j] # "track"}}     \* tracking is observational
Sem(s) == SelectSeq(s, LAMBDA k : k = "us" \/ k \in QKinds)
\* "q1" is the LOSSLESS format pair (E8M23 both ways on float32 data): simulating it must run (it is in the pipeline) but
\* leave the function bitwise as it was -- so {us, q1} must compute what {us} computes and {q1} what the original does.
\* A nesting that drops or alters part of an earlier transform while adding the simulation shows up here even when both
\* nesting orders are wrong in the same way.
Lossless == {"q1"}

\* walk: state [mods, fps (function: semantic set -> fingerprint id), drift]
RECURSIVE Walk(_, _, _, _, _)
Walk(tr, k, mods, fps, drift) ==
  IF k > Len(tr) THEN <<0, "ok", drift>>
  ELSE LET st == tr[k] IN
  IF st.m < 1 \/ st.m > Len(mods) THEN <<k, "harness_bad_module_index", drift>>
  ELSE IF ~st.unchanged THEN <<k, "another_module_was_modified", drift>>
  ELSE IF st.a = "apply" THEN
    LET mods2 == ApplyTo(mods, st.m, st.kind)  new == mods2[Len(mods2)]
        d2 == IF drift # "" THEN drift
              ELSE IF SeqOf(st.backends) # new.backends THEN "backend_list_after_apply_at_step_" \o ToString(k)
              ELSE IF st.rerun # new.rerun THEN "rerun_flag_after_apply_at_step_" \o ToString(k) ELSE ""
    IN IF ~st.disjoint THEN <<k, "storage_shared_with_source", d2>>
       ELSE IF ~(EachOnce(SeqOf(st.backends)) /\ UsBeforeQ(SeqOf(st.backends))) /\ FALSE THEN <<k, "unreachable", d2>>
       ELSE Walk(tr, k + 1, mods2, fps, d2)
  ELSE
    LET r == CallOn(mods, st.m)
        ran == SeqOf(st.ran)
        own == mods[st.m].backends
        key == SemanticSet(own) \ Lossless
        d2 == IF drift # "" THEN drift ELSE IF ran # Sem(r.ran) THEN "pipeline_ran_at_call_step_" \o ToString(k) ELSE ""
    IN IF ran # <<>> /\ ran # Sem(own) THEN <<k, "wrong_pipeline_ran", d2>>         \* every transform once, unit scaling before quantisation
       ELSE IF key \in DOMAIN fps /\ fps[key] # st.fp THEN <<k, "function_depends_on_history_not_on_transform_set", d2>>
       ELSE Walk(tr, k + 1, r.mods, [x \in DOMAIN fps \cup {key} |-> IF x = key THEN st.fp ELSE fps[x]], d2)

VARIABLES l, fails, drifts
vars == <<l, fails, drifts>>
Init == l = 1 /\ fails = <<>> /\ drifts = <<>>
Step1 == /\ l <= NT
         /\ LET v == Walk(Traces[l], 1, <<Original>>, [x \in {} |-> 0], "") IN
              /\ fails' = IF v[2] = "ok" \/ Len(fails) >= 50 THEN fails ELSE Append(fails, <<l, v[1], v[2]>>)
              /\ drifts' = IF v[3] # "" /\ Len(drifts) < 20 THEN Append(drifts, <<l, "backend_list_or_flag_bookkeeping:" \o v[3]>>) ELSE drifts
         /\ l' = l + 1
Finish == /\ l = NT + 1
          /\ JsonSerialize(IOEnv.OUT_FILE, [fails |-> fails, drifts |-> drifts, n |-> NT, ev |-> NT])
          /\ l' = NT + 2 /\ UNCHANGED <<fails, drifts>>
Spec == Init /\ [][Step1 \/ Finish]_vars
=============================================================================
