CONSTANTS Legacy = {}
SPECIFICATION Spec
