------------------------------ MODULE ToUser_MC ------------------------------
(* Every module DAG with <= N modules, <= 2 registered children each (names "a", "b"; children have larger ids, so  *)
(* instances may be shared between names and between parents), every torch/user labelling.                          *)
EXTENDS ToUser, TLC, Json
CONSTANTS N, Emit
D == N          \* unfolding depth
KidSeqs(m) == {<<>>} \cup {<<<<"a", c>>>> : c \in m + 1 .. N} \cup {<<<<"a", c>>, <<"b", e>>>> : c \in m + 1 .. N, e \in m + 1 .. N}
VARIABLES st0
Init == \E cls \in [1 .. N -> {"torch", "user"}] : \E ks \in [1 .. N -> UNION {KidSeqs(m) : m \in 1 .. N}] :
          /\ \A m \in 1 .. N : ks[m] \in KidSeqs(m)
          /\ st0 = [heap |-> [m \in 1 .. N |-> [cls |-> cls[m], d |-> m]], dicts |-> [m \in 1 .. N |-> ks[m]]]
          /\ Reachable(st0, D) = 1 .. N           \* no garbage: every module is part of the model
Next == UNCHANGED st0
Spec == Init /\ [][Next]_st0
St1 == Convert(st0, 1)
InvRoot == RootKept(st0, St1)
InvUser == UserKept(st0, St1, D)
InvPaths == SamePaths(st0, St1, D)
InvState == StateShared(st0, St1, D)
InvTree == AliasFree(st0, D) => AllConverted(St1, D)
InvLeftovers == \A c \in Leftovers(St1, D) : c <= N /\ InDegree(st0, c) >= 2
\* repeating the transform never increases what is left (it shrinks by one registration per pass)
InvProgress == Cardinality(Leftovers(Convert(St1, 1), D)) <= Cardinality(Leftovers(St1, D))
\* non-vacuity: expected to be VIOLATED (an instance registered twice leaves a torch.nn module behind)
InvNoLeftovers == Leftovers(St1, D) = {}
\* ---- emission for the replay (direction A): the input and the expected unfolding <<path, cls, instance id>>
Unfold(st) == LET ps == Paths(st, 1, D) IN {<<p[1], st.heap[p[2]].cls, p[2]>> : p \in ps}
SetToSeq(S) == LET RECURSIVE F(_) F(T) == IF T = {} THEN <<>> ELSE LET x == CHOOSE y \in T : TRUE IN <<x>> \o F(T \ {x}) IN F(S)
EmitCase == Emit => PrintT(<<"TOUSER", ToJson([cls |-> [m \in 1 .. N |-> st0.heap[m].cls], kids |-> st0.dicts, expect |-> SetToSeq(Unfold(St1))])>>)
=============================================================================
