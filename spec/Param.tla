------------------------------- MODULE Param -------------------------------
(***************************************************************************)
(* A u-muP tagged parameter held by a module, under histories of copies,   *)
(* pickling, conversions, state-dict loads and library transforms (C09).   *)
(*                                                                         *)
(* Abstract state of the parameter object currently held by the module:    *)
(*   tags   TRUE iff mup_type / mup_scaling_depth are present (has_parameter_data) *)
(*   typ, depth  their values (constant along a behaviour when tags)        *)
(*   dc, rx instance-level __deepcopy__ / __reduce_ex__ hooks installed    *)
(*   isParam, rg, dtype, val (value class: exact / rounded through fp16)   *)
(* Each action is one operation of the quantifier, written from the        *)
(* mechanism in parameter.py / torch:                                      *)
(*   copy.deepcopy  -> instance __deepcopy__ if dc (tags copied, hooks      *)
(*                     re-installed) else class __deepcopy__ (bare Parameter)*)
(*   pickle/torch.save -> instance __reduce_ex__ if rx (rebuilt with state  *)
(*                     and hooks) else class __reduce_ex__ (state kept,     *)
(*                     hooks absent)                                        *)
(*   .to/.half/load_state_dict/requires_grad_ act in place on the object.  *)
(*   a library transform deep-copies the module.                           *)
(* Legacy = {"copy_drops_hooks"} models the code before the fix.           *)
(***************************************************************************)
EXTENDS Integers, Sequences, TLC

CONSTANTS Legacy, MaxLen

Types  == {"weight", "bias", "norm", "output"}
Depths == {0, 1, 7}            \* 0 stands for None
Ops == {"DeepCopyParam", "DeepCopyModule", "PickleParam", "PickleModule",
        "SaveLoadParam", "SaveLoadModule", "ToF64", "Half", "LoadStateDict",
        "ToggleGrad", "Transform"}
CopyOps   == {"DeepCopyParam", "DeepCopyModule", "Transform"}
PickleOps == {"PickleParam", "PickleModule", "SaveLoadParam", "SaveLoadModule"}

VARIABLES st, h
vars == <<st, h>>

InitState(t, d) ==
  [tags |-> TRUE, typ |-> t, depth |-> d, dc |-> TRUE, rx |-> TRUE,
   isParam |-> TRUE, rg |-> TRUE, dtype |-> "f32", val |-> "exact"]

\* "Transform" stands for ANY library transform (apply_transform with a no-op backend, simulate_fp8, simulate_format, unit_scale,
\* track_scales, compile): each deep-copies the module and must change nothing else of the parameter -- in particular not rg.
\* The harness binds it to each of them by name; track_scales / compile are documented as final-only and never followed by another.
\* Named deviation of the code from the ideal: a transformed module carries a
\* local closure as its forward and cannot be pickled, so module-level pickling
\* is not enabled after a Transform (parameter-level pickling still is).
Enabled(op, hist) ==
  ~(op \in {"PickleModule", "SaveLoadModule"} /\ \E i \in 1 .. Len(hist) : hist[i] = "Transform")

\* the effect of one operation on the abstract state
Apply(op, s) ==
  IF op \in CopyOps THEN
    IF s.dc THEN [s EXCEPT !.dc = ~("copy_drops_hooks" \in Legacy), !.rx = ~("copy_drops_hooks" \in Legacy)]
    ELSE [s EXCEPT !.tags = FALSE, !.dc = FALSE, !.rx = FALSE]      \* class __deepcopy__: fresh Parameter, no __dict__
  ELSE IF op \in PickleOps THEN
    IF s.rx THEN [s EXCEPT !.dc = TRUE, !.rx = TRUE]                  \* _rebuild_parameter_with_state re-installs hooks
    ELSE [s EXCEPT !.dc = FALSE, !.rx = FALSE]                        \* class reduce: __dict__ state kept as is
  ELSE IF op = "ToF64" THEN [s EXCEPT !.dtype = "f64"]
  ELSE IF op = "Half" THEN [s EXCEPT !.dtype = "f16", !.val = "f16"]
  ELSE IF op = "LoadStateDict" THEN [s EXCEPT !.val = IF s.dtype = "f16" THEN "f16" ELSE "exact"]
  ELSE IF op = "ToggleGrad" THEN [s EXCEPT !.rg = ~s.rg]
  ELSE s

Init == \E t \in Types, d \in Depths : st = InitState(t, d) /\ h = <<>>
Do(op) == Len(h) < MaxLen /\ Enabled(op, h) /\ st' = Apply(op, st) /\ h' = Append(h, op)
Next == \E op \in Ops : Do(op)
Spec == Init /\ [][Next]_vars

TypeOK == st.typ \in Types /\ st.depth \in Depths /\ st.dtype \in {"f32", "f64", "f16"} /\ st.val \in {"exact", "f16"}
\* C09: tags, parameter status survive every history; the optimizers accept it
TagsSurvive == st.tags /\ st.isParam
OptimAccepts == st.tags
\* the mechanism that makes it inductive: a tagged parameter always carries both hooks
HooksInstalled == st.tags => (st.dc /\ st.rx)
\* values change only through explicit precision loss
ValuesKept == (st.val = "f16") => (\E i \in 1 .. Len(h) : h[i] = "Half")
\* ---- unbounded histories: IndInv is INDUCTIVE (checked by TLC from every state of the type domain that satisfies it,
\* one step, all operations enabled), so TagsSurvive holds after histories of ANY length, not only the enumerated <= MaxLen
StateDomain == [tags : BOOLEAN, typ : Types, depth : Depths, dc : BOOLEAN, rx : BOOLEAN, isParam : BOOLEAN, rg : BOOLEAN,
                dtype : {"f32", "f64", "f16"}, val : {"exact", "f16"}]
IndInv == TypeOK /\ TagsSurvive /\ HooksInstalled
IndInit == st \in StateDomain /\ IndInv /\ h = <<>>
IndSpec == IndInit /\ [][Next]_vars
\* tags never change along a step
TagsConstant == [][st.tags' => (st'.typ = st.typ /\ st'.depth = st.depth)]_vars
=============================================================================
