CONSTANTS Legacy = {}  MaxMods = 4  MaxCalls = 3
SPECIFICATION Spec
INVARIANT OriginalUntouched
INVARIANT PipelineCanonical
INVARIANT EffectiveIsOwn
INVARIANT OrderIndependent
PROPERTY NoRerunOnRepeat
