------------------------------ MODULE Annotate ------------------------------
(***************************************************************************)
(* unit_scaling.utils._annotate (the text analyse_module returns): the     *)
(* generated code of the traced graph, line by line, with the recorded     *)
(* (forward, backward) scale of a tensor written at the end of the line    *)
(* that defines it.  Growth item (outside the listed properties).          *)
(*   line  = [k, name, args]                                               *)
(*     k    "wrap"   a torch.fx wrap(...) preamble line        -> dropped  *)
(*          "blank"  an empty line                             -> dropped  *)
(*          "assign" `name = ...`            -> annotated iff name tracked *)
(*          "def"    the signature, args = parameter names  -> annotated   *)
(*                   with the scales of its tracked parameters, in order   *)
(*          "other"  anything else (return, comments)       -> unchanged   *)
(*   scales = sequence of <<name, text>> (insertion-ordered dict)          *)
(* Output: sequence of [src, anns]: the index of the source line and the   *)
(* annotation texts appended to it.                                        *)
(***************************************************************************)
EXTENDS Integers, Sequences, FiniteSets

Names(scales) == {scales[i][1] : i \in 1 .. Len(scales)}
TextOf(scales, n) == LET i == CHOOSE j \in 1 .. Len(scales) : scales[j][1] = n IN scales[i][2]

Dropped(l) == l.k \in {"wrap", "blank"}
AnnsOf(l, scales) ==
  IF l.k = "assign" THEN (IF l.name \in Names(scales) THEN <<TextOf(scales, l.name)>> ELSE <<>>)
  ELSE IF l.k = "def" THEN LET tracked == SelectSeq(l.args, LAMBDA a : a \in Names(scales)) IN [i \in 1 .. Len(tracked) |-> TextOf(scales, tracked[i])]
  ELSE <<>>

RECURSIVE Out(_, _, _)
Out(lines, scales, i) ==
  IF i > Len(lines) THEN <<>>
  ELSE IF Dropped(lines[i]) THEN Out(lines, scales, i + 1)
  ELSE <<[src |-> i, anns |-> AnnsOf(lines[i], scales)]>> \o Out(lines, scales, i + 1)
Annotated(lines, scales) == Out(lines, scales, 1)

\* ---- what a reader of the text relies on
\* every tracked tensor defined by an assignment carries exactly its own scale, on its own line
TrackedAnnotated(lines, scales) ==
  LET o == Annotated(lines, scales) IN
  \A i \in 1 .. Len(lines) : (lines[i].k = "assign" /\ lines[i].name \in Names(scales)) =>
     \E j \in 1 .. Len(o) : o[j].src = i /\ o[j].anns = <<TextOf(scales, lines[i].name)>>
\* nothing else is annotated, order is kept, only preamble/blank lines disappear
NothingElse(lines, scales) ==
  LET o == Annotated(lines, scales) IN
  /\ \A j \in 1 .. Len(o) : o[j].anns # <<>> => lines[o[j].src].k \in {"assign", "def"}
  /\ \A j \in 1 .. Len(o) - 1 : o[j].src < o[j + 1].src
  /\ {o[j].src : j \in 1 .. Len(o)} = {i \in 1 .. Len(lines) : ~Dropped(lines[i])}
=============================================================================
