------------------------------ MODULE FxGraph ------------------------------
(***************************************************************************)
(* An abstract torch.fx graph: a SEQUENCE of node records in list order.   *)
(*   node = [id, op, tgt, args, kw]                                        *)
(*     op   "placeholder" | "call" | "get_attr" | "output"                 *)
(*     tgt  name of the target (a string from a fixed name table)          *)
(*     args sequence of arguments, kw sequence of <<key, argument>>        *)
(*   argument = <<"n", id>> (a node) | <<"c", "text">> (a constant)        *)
(*            | <<"l", <<argument, ...>>>> (list / tuple, nested)          *)
(* with FX's mutation rules: replace-all-uses, erase (legal only without   *)
(* users), insertion after a node, iteration in list order.                *)
(***************************************************************************)
EXTENDS Integers, Sequences, FiniteSets, TLC

NoneArg == <<"c", "None">>
IsNodeArg(a) == a[1] = "n"

RECURSIVE ArgNodes(_)
ArgNodes(a) ==      \* set of node ids referenced by an argument
  IF a[1] = "n" THEN {a[2]}
  ELSE IF a[1] = "l" THEN UNION {ArgNodes(a[2][k]) : k \in 1 .. Len(a[2])}
  ELSE {}
RECURSIVE ArgNodeSeq(_)
ArgNodeSeq(a) ==    \* node ids in order of appearance (with repetitions)
  IF a[1] = "n" THEN <<a[2]>>
  ELSE IF a[1] = "l" THEN LET RECURSIVE F(_) F(k) == IF k > Len(a[2]) THEN <<>> ELSE ArgNodeSeq(a[2][k]) \o F(k + 1) IN F(1)
  ELSE <<>>
RECURSIVE MapArg(_, _, _)
MapArg(a, old, new) ==   \* replace every reference to node `old` by argument `new`
  IF a[1] = "n" THEN (IF a[2] = old THEN new ELSE a)
  ELSE IF a[1] = "l" THEN <<"l", [k \in 1 .. Len(a[2]) |-> MapArg(a[2][k], old, new)]>>
  ELSE a

NodeArgsAll(n) == [k \in 1 .. Len(n.args) + Len(n.kw) |-> IF k <= Len(n.args) THEN n.args[k] ELSE n.kw[k - Len(n.args)][2]]
Inputs(n) == UNION {ArgNodes(NodeArgsAll(n)[k]) : k \in 1 .. Len(NodeArgsAll(n))}
\* all_input_nodes: distinct input ids in order of first appearance (args then kwargs)
RECURSIVE Dedup(_, _)
Dedup(s, seen) == IF s = <<>> THEN <<>> ELSE IF Head(s) \in seen THEN Dedup(Tail(s), seen) ELSE <<Head(s)>> \o Dedup(Tail(s), seen \cup {Head(s)})
InputSeq(n) == LET all == NodeArgsAll(n)
                   RECURSIVE F(_) F(k) == IF k > Len(all) THEN <<>> ELSE ArgNodeSeq(all[k]) \o F(k + 1)
               IN Dedup(F(1), {})

Ids(g) == {g[k].id : k \in 1 .. Len(g)}
Pos(g, id) == CHOOSE k \in 1 .. Len(g) : g[k].id = id
NodeOf(g, id) == g[Pos(g, id)]
Users(g, id) == {g[k].id : k \in {j \in 1 .. Len(g) : id \in Inputs(g[j])}}
FreshId(g) == IF g = <<>> THEN 1 ELSE 1 + (CHOOSE m \in Ids(g) : \A x \in Ids(g) : m >= x)

ReplaceInNode(n, old, new) ==
  [n EXCEPT !.args = [k \in 1 .. Len(n.args) |-> MapArg(n.args[k], old, new)],
            !.kw = [k \in 1 .. Len(n.kw) |-> <<n.kw[k][1], MapArg(n.kw[k][2], old, new)>>]]
ReplaceAllUses(g, old, new) == [k \in 1 .. Len(g) |-> ReplaceInNode(g[k], old, new)]
ReplaceUsesIn(g, users, old, new) == [k \in 1 .. Len(g) |-> IF g[k].id \in users THEN ReplaceInNode(g[k], old, new) ELSE g[k]]
RemoveAt(g, p) == [k \in 1 .. Len(g) - 1 |-> IF k < p THEN g[k] ELSE g[k + 1]]
CanErase(g, id) == Users(g, id) = {}
Erase(g, id) == RemoveAt(g, Pos(g, id))
InsertAfter(g, id, n) == LET p == Pos(g, id) IN [k \in 1 .. Len(g) + 1 |-> IF k <= p THEN g[k] ELSE IF k = p + 1 THEN n ELSE g[k - 1]]

\* lint: ids unique; every referenced node exists and comes earlier in the list
WellFormed(g) ==
  /\ \A j, k \in 1 .. Len(g) : j # k => g[j].id # g[k].id
  /\ \A k \in 1 .. Len(g) : \A i \in Inputs(g[k]) : \E j \in 1 .. k - 1 : g[j].id = i

\* ancestors (transitive inputs) of a node
RECURSIVE Anc(_, _)
Anc(g, id) == LET ins == Inputs(NodeOf(g, id)) IN ins \cup UNION {Anc(g, i) : i \in ins}
=============================================================================
