CONSTANTS Legacy = {"falsy_is_off"}  Emit = FALSE
SPECIFICATION Spec
INVARIANT RejectExactly
INVARIANT DecorationOK
INVARIANT EmitCall
