CONSTANTS LayerSet = {1, 2, 3}  MaxExplicit = 6  Legacy = {"parity_swap"}
SPECIFICATION Spec
INVARIANT AlphaSplit
INVARIANT OneStep
INVARIANT TauPositive
INVARIANT Totals
INVARIANT Explicit
