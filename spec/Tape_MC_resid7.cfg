CONSTANTS Legacy = {}  Phase = "resid"  MaxLen = 0  MaxNodes = 7  Emit = FALSE
SPECIFICATION Spec
INVARIANT ResidOK
INVARIANT TauSquares
INVARIANT EmitProg
