CONSTANTS HE = 3  HM = 10  Legacy = {}  Modes = {"nearest"}
SPECIFICATION Spec
INVARIANT NearestOK
INVARIANT SaturatesOK
INVARIANT IdempotentOK
INVARIANT MonotoneOK
INVARIANT FixedPointOK
INVARIANT RangeOK
INVARIANT BridgeOK
INVARIANT PatternOK
