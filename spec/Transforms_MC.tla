---------------------------- MODULE Transforms_MC ----------------------------
(* Every history of Apply / Call actions with at most MaxMods modules and MaxCalls calls, using unit_scale at most     *)
(* once and at most one format simulation per lineage, track/compile only last.                                         *)
EXTENDS Transforms
CONSTANTS MaxMods, MaxCalls
\* last = the last event (<<"apply", m, kind>> / <<"call", m, ran>>); the full history is NOT part of the state (every
\* property below speaks about the last step only), which keeps the reachable set small enough for deeper bounds.
VARIABLES mods, last, ncalls, lastEff
vars == <<mods, last, ncalls, lastEff>>
Init == mods = <<Original>> /\ last = <<"init">> /\ ncalls = 0 /\ lastEff = <<>>
Allowed(m, k) ==      \* the chains of the quantifier
  LET b == mods[m].backends  S == {b[i] : i \in 1 .. Len(b)} IN
  /\ S \cap LastKinds = {}                      \* track / compile are documented to come last
  /\ (k = "us" => "us" \notin S)
  /\ (k \in QKinds => S \cap QKinds = {})
Apply == /\ Len(mods) < MaxMods
         /\ \E m \in 1 .. Len(mods), k \in Kinds : Allowed(m, k) /\ mods' = ApplyTo(mods, m, k) /\ last' = <<"apply", m, k>>
         /\ UNCHANGED <<ncalls, lastEff>>
Call == /\ ncalls < MaxCalls
        /\ \E m \in 1 .. Len(mods) : LET r == CallOn(mods, m) IN mods' = r.mods /\ last' = <<"call", m, r.ran>> /\ lastEff' = r.eff
        /\ ncalls' = ncalls + 1
Next == Apply \/ Call
Spec == Init /\ [][Next]_vars

\* ---- unbounded nesting: canonicity of a backend list is preserved by EVERY allowed Apply (checked over all canonical
\* lists, not only those reachable within MaxMods), so it holds for chains of any length
Canonical(b) == EachOnce(b) /\ UsBeforeQ(b) /\ LastIsLast(b)
AllLists == UNION {[1 .. n -> Kinds] : n \in 0 .. 4}
AllowedOn(b, k) == LET S == {b[i] : i \in 1 .. Len(b)} IN S \cap LastKinds = {} /\ (k = "us" => "us" \notin S) /\ (k \in QKinds => S \cap QKinds = {})
NewBackends(b, k) == IF k = "us" THEN OrderBackends(Append(b, k)) ELSE Append(b, k)
OneQ(b) == Cardinality({i \in 1 .. Len(b) : b[i] \in QKinds}) <= 1      \* the quantifier: at most one format simulation
ASSUME CanonicityInductive == \A b \in AllLists : \A k \in Kinds : (Canonical(b) /\ OneQ(b) /\ AllowedOn(b, k)) => (Canonical(NewBackends(b, k)) /\ OneQ(NewBackends(b, k)))

OriginalUntouched == mods[1] = [Original EXCEPT !.calls = mods[1].calls]
PipelineCanonical == \A m \in 1 .. Len(mods) : LET b == mods[m].backends IN EachOnce(b) /\ UsBeforeQ(b) /\ LastIsLast(b)
\* the pipeline in effect at any call is the module's own backend list (never a stale one inherited from its source)
EffectiveIsOwn == last[1] = "call" => lastEff = mods[last[2]].backends
\* same set of transforms => same pipeline, whatever the order they were applied in
OrderIndependent == \A a, b \in 1 .. Len(mods) : Applied(mods, a) = Applied(mods, b) /\ (\A k \in Applied(mods, a) : k \notin QKinds \/ TRUE) =>
   (Applied(mods, a) \cap QKinds = Applied(mods, b) \cap QKinds => mods[a].backends = mods[b].backends)
\* a repeated call does not re-run the backends unless another module was re-traced in between (action property)
NoRerunOnRepeat == [][\A m \in 1 .. Len(mods) : (ncalls' = ncalls + 1 /\ last'[2] = m /\ ~mods[m].rerun /\ mods[m].live /\ mods[m].backends # <<>>) => last'[3] = <<>>]_vars
\* whatever a call re-runs -- first trace or re-trace after a global reset -- is the module's own pipeline
RerunIsOwn == (last[1] = "call" /\ last[3] # <<>>) => last[3] = mods[last[2]].backends
\* compiled code is only ever alive for modules that were traced with their own list
LiveIsOwn == \A m \in 1 .. Len(mods) : mods[m].live => mods[m].cached = mods[m].backends
=============================================================================
