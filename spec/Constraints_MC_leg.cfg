CONSTANTS MaxN = 3  Emit = FALSE  Legacy = {"swap_h_a"}
SPECIFICATION Spec
INVARIANT Bounds
INVARIANT Ordering
INVARIANT Symmetric
INVARIANT Homogeneous
INVARIANT EqualScales
INVARIANT Selection
INVARIANT SymOK
INVARIANT EmitTuple
