CONSTANTS Legacy = {"add_scales_bwd"}  Phase = "resid"  MaxLen = 0  MaxNodes = 2  Emit = FALSE
SPECIFICATION Spec
INVARIANT ResidOK
INVARIANT TauSquares
INVARIANT EmitProg
