---------------------------- MODULE Transforms_Gen ----------------------------
(* Direction A for C17: TLC generates the histories (every maximal history within the bounds in exhaustive mode, random *)
(* ones in -simulate mode); the harness replays each on real modules and validates the recorded run with               *)
(* Transforms_Trace.  The history is a history variable of this module only (Transforms_MC keeps just the last event).  *)
EXTENDS Transforms_MC, Json
CONSTANT GenKinds        \* the transforms the generated histories may use (q1/q2/q3 are symmetric in the model)
VARIABLE hist
GInit == Init /\ hist = <<>>
GNext == (Apply \/ Call) /\ hist' = Append(hist, last')
GSpec == GInit /\ [][GNext]_<<vars, hist>>
Terminal == Len(mods) = MaxMods /\ ncalls = MaxCalls
GenOnly == \A i \in 1 .. Len(hist) : hist[i][1] = "apply" => hist[i][3] \in GenKinds
Emit == (Terminal /\ GenOnly) => PrintT(<<"HIST", ToJson(hist)>>)
=============================================================================
