-------------------------------- MODULE Prune --------------------------------
(***************************************************************************)
(* The three graph-pruning helpers of unit_scaling.transforms (C19) on a   *)
(* tracked graph: every node carries float (outputs a float tensor), fwd   *)
(* (mean |x| forward, a rational) and bwd (mean |grad|, or <<-1,1>> when   *)
(* no gradient was recorded).  One loop iteration of a helper = one Step.  *)
(***************************************************************************)
EXTENDS FxGraph, Rat

CONSTANT Legacy

NoBwd == <<-1, 1>>
IsOutput(n) == n.op = "output"
FloatInputs(g, n) ==      \* all_input_nodes filtered to float tensors, in order
  LET s == InputSeq(n) IN SelectSeq(s, LAMBDA i : NodeOf(g, i).float)
\* the code before the fix looked at top-level positional arguments only
TopLevelFloatInputs(g, n) ==
  LET ids == [k \in 1 .. Len(n.args) |-> IF n.args[k][1] = "n" THEN n.args[k][2] ELSE -1]
  IN SelectSeq(ids, LAMBDA i : i # -1 /\ NodeOf(g, i).float)
FloatIn(g, n) == IF "toplevel_inputs_only" \in Legacy THEN TopLevelFloatInputs(g, n) ELSE FloatInputs(g, n)

\* math.isclose(a, b, rel_tol = rtol):  |a-b| <= rtol * max(|a|,|b|)
\* rtol = 1/rd.  On the common denominator L the test |A-B| <= max(A,B)/rd needs no multiplication:
\* for integers, |A-B| * rd <= M  <=>  |A-B| <= M \div rd.
LCM(x, y) == (x \div GCD(x, y)) * y
IsClose(a, b, rtol) ==
  LET L == LCM(a[2], b[2])  A == a[1] * (L \div a[2])  B == b[1] * (L \div b[2])
      diff == IF A >= B THEN A - B ELSE B - A   M == IF A >= B THEN A ELSE B
  IN IF rtol[1] = 0 THEN diff = 0 ELSE diff <= (M * rtol[1]) \div rtol[2]
SameScale(n, a, rtol) ==
  IF n.bwd = NoBwd /\ a.bwd = NoBwd THEN IsClose(n.fwd, a.fwd, rtol)
  ELSE IF n.bwd = NoBwd \/ a.bwd = NoBwd THEN FALSE
  ELSE IsClose(n.fwd, a.fwd, rtol) /\ IsClose(n.bwd, a.bwd, rtol)

\* _prune: rewire every user (positional, keyword, nested), then erase.
\* With the legacy deviation only top-level positional args (and the output tuple) are rewritten.
TopLevelReplace(n, old, new) ==
  IF IsOutput(n) THEN ReplaceInNode(n, old, new)
  ELSE [n EXCEPT !.args = [k \in 1 .. Len(n.args) |-> IF n.args[k] = <<"n", old>> THEN new ELSE n.args[k]],
                 !.kw = [k \in 1 .. Len(n.kw) |-> <<n.kw[k][1], IF n.kw[k][2] = <<"n", old>> THEN new ELSE n.kw[k][2]>>]]
PruneNode(g, id, repl) ==      \* result [g, err]
  LET g1 == IF "toplevel_args_only" \in Legacy THEN [k \in 1 .. Len(g) |-> TopLevelReplace(g[k], id, repl)]
            ELSE ReplaceAllUses(g, id, repl)
  IN IF CanErase(g1, id) THEN [g |-> Erase(g1, id), err |-> ""] ELSE [g |-> g1, err |-> "erase_with_users"]

\* one loop iteration on node `id` of graph g for helper h (params rtol / targets)
Decide(g, id, h, rtol, targets) ==      \* "keep" or <<"prune", replacement argument>>
  LET n == NodeOf(g, id)  fl == FloatIn(g, n) IN
  IF h = "non_float" THEN
    IF IsOutput(n) \/ n.float THEN <<"keep">>
    ELSE <<"prune", IF Len(fl) = 1 THEN <<"n", fl[1]>> ELSE NoneArg>>
  ELSE IF h = "same_scale" THEN
    IF IsOutput(n) \/ ~n.float \/ Len(fl) # 1 THEN <<"keep">>
    ELSE IF SameScale(n, NodeOf(g, fl[1]), rtol) THEN <<"prune", <<"n", fl[1]>>>> ELSE <<"keep">>
  ELSE IF n.tgt \in targets THEN <<"prune", NoneArg>> ELSE <<"keep">>

\* the whole helper: iterate over the ids of the ORIGINAL list order; a node still present is visited once
RECURSIVE RunFrom(_, _, _, _, _, _)
RunFrom(g, todo, h, rtol, targets, removed) ==
  IF todo = <<>> THEN [g |-> g, err |-> "", removed |-> removed]
  ELSE LET id == Head(todo) IN
       IF id \notin Ids(g) THEN RunFrom(g, Tail(todo), h, rtol, targets, removed)
       ELSE LET d == Decide(g, id, h, rtol, targets) IN
            IF d[1] = "keep" THEN RunFrom(g, Tail(todo), h, rtol, targets, removed)
            ELSE LET r == PruneNode(g, id, d[2]) IN
                 IF r.err # "" THEN [g |-> r.g, err |-> r.err, removed |-> removed]
                 ELSE RunFrom(r.g, Tail(todo), h, rtol, targets, Append(removed, <<id, d[2], Len(FloatInputs(g, NodeOf(g, id)))>>))
Run(g, h, rtol, targets) == RunFrom(g, [k \in 1 .. Len(g) |-> g[k].id], h, rtol, targets, <<>>)

-----------------------------------------------------------------------------
(* What C19 demands of a result r = Run(g, ...) (declaratively, on g and r.g) *)
RemovedIds(r) == {r.removed[k][1] : k \in 1 .. Len(r.removed)}
SubseqOfInput(g, g2) ==      \* same nodes in the original order, minus the removed ones
  LET keep == SelectSeq([k \in 1 .. Len(g) |-> g[k].id], LAMBDA i : i \in Ids(g2))
  IN [k \in 1 .. Len(g2) |-> g2[k].id] = keep
\* a removed node was bypassed (replacement is a node) or cut (None)
Bypassed(r, id) == \E k \in 1 .. Len(r.removed) : r.removed[k][1] = id /\ r.removed[k][2][1] = "n"
\* u reaches v through bypassed nodes only, in the input graph
RECURSIVE Through(_, _, _, _), StandsFor(_, _, _, _)
Through(g, r, u, v) ==      \* v is a node of g; does v read u directly, or read a bypassed node that (transitively) stands for u
  \/ u \in Inputs(NodeOf(g, v))
  \/ \E m \in Inputs(NodeOf(g, v)) : Bypassed(r, m) /\ m # u /\ StandsFor(g, r, m, u)
StandsFor(g, r, m, u) ==    \* the replacement chain of bypassed node m ends in u
  LET k == CHOOSE j \in 1 .. Len(r.removed) : r.removed[j][1] = m
      t == r.removed[k][2][2]
  IN t = u \/ (Bypassed(r, t) /\ StandsFor(g, r, t, u))
EdgesPreserved(g, r) ==
  \A v \in Ids(r.g) : \A u \in Ids(r.g) :
     (u \in Inputs(NodeOf(r.g, v))) <=> Through(g, r, u, v)
RemovedExactly(g, r, h, targets) ==
  IF h = "non_float" THEN RemovedIds(r) = {g[k].id : k \in {j \in 1 .. Len(g) : ~IsOutput(g[j]) /\ ~g[j].float}}
  ELSE IF h = "selected" THEN RemovedIds(r) = {g[k].id : k \in {j \in 1 .. Len(g) : g[j].tgt \in targets}}
  ELSE \A i \in RemovedIds(r) : NodeOf(g, i).float /\ ~IsOutput(NodeOf(g, i))
\* "every node removed by the non-float or same-scale helper that has exactly one float-tensor input is bypassed"
\* (the count is taken over ALL inputs of the node at the moment it is visited: positional, keyword, nested)
BypassRule(r, h) == h # "selected" => \A k \in 1 .. Len(r.removed) : r.removed[k][3] = 1 => r.removed[k][2][1] = "n"
\* ---- analysis.graph_to_dataframe (growth item): the metrics table of a float-only graph -- two rows (forward, then
\* backward) per node in graph order, the `output` node dropped; tensor type = ["grad_"] + ("w" for a parameter, "x" otherwise);
\* the value is the node's metric of that direction (<<-1, 1>> = none recorded).  Nodes carry `req` (is a trainable parameter).
TensorType(dir, req) == (IF dir = "bwd" THEN "grad_" ELSE "") \o (IF req THEN "w" ELSE "x")
RowsOf(g) ==
  LET body == SelectSeq(g, LAMBDA n : n.op # "output") IN
  [k \in 1 .. 2 * Len(body) |->
     LET n == body[(k + 1) \div 2]   dir == IF k % 2 = 1 THEN "fwd" ELSE "bwd" IN
     [id |-> n.id, weight |-> n.req, dir |-> dir, type |-> TensorType(dir, n.req), val |-> IF dir = "fwd" THEN n.fwd ELSE n.bwd]]

C19OK(g, r, h, targets) ==
  /\ r.err = ""
  /\ BypassRule(r, h)
  /\ WellFormed(r.g)
  /\ SubseqOfInput(g, r.g)
  /\ RemovedExactly(g, r, h, targets)
  /\ (h # "selected" => EdgesPreserved(g, r))
=============================================================================
