CONSTANTS Legacy = {}  MaxLen = 4
SPECIFICATION TSpec
