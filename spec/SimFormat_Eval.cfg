CONSTANTS Legacy = {}
SPECIFICATION Spec
