CONSTANTS Legacy = {"stale_cache"}  MaxMods = 4  MaxCalls = 3
SPECIFICATION Spec
INVARIANT OriginalUntouched
INVARIANT PipelineCanonical
INVARIANT EffectiveIsOwn
INVARIANT OrderIndependent
PROPERTY NoRerunOnRepeat
