-------------------------- MODULE ResidualRule_Eval --------------------------
(* Direction A: for harness-supplied (mult, ratio, layers) emit the spec's    *)
(* tau^2 for every branch index, as exact rationals.                          *)
EXTENDS ResidualRule, Json, IOUtils
Cases == JsonDeserialize(IOEnv.TRACE_FILE)
Expect(k) == LET mu == <<k.mult[1], k.mult[2]>>  ra == <<k.ratio[1], k.ratio[2]>>  L == 2 * k.layers
             IN [i \in 1 .. L |-> Tau2(mu, ra, i - 1, L)]
Out == [j \in 1 .. Len(Cases) |-> Expect(Cases[j])]
VARIABLE done
Init == done = FALSE
Next == ~done /\ JsonSerialize(IOEnv.OUT_FILE, [out |-> Out, n |-> Len(Cases)]) /\ done' = TRUE
Spec == Init /\ [][Next]_done
=============================================================================
