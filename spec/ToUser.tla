------------------------------- MODULE ToUser -------------------------------
(***************************************************************************)
(* transforms.utils.torch_nn_modules_to_user_modules (growth item): every  *)
(* torch.nn module below the root is replaced by an instance of a trivial  *)
(* subclass that shares the original's state, so that TorchDynamo treats   *)
(* it as a user module.                                                    *)
(*   heap  : sequence of modules, module = [cls, d]                        *)
(*           cls in {"torch", "user", "triv"};  d = index of its children  *)
(*           dict in `dicts` (the _modules OrderedDict OBJECT: the replace- *)
(*           ment shares it with the original, __setstate__ copies the     *)
(*           reference)                                                    *)
(*   dicts : sequence of dictionaries, dictionary = sequence of <<name,    *)
(*           module id>> in registration order                             *)
(* Convert(m): for every child in named_children() order -- which yields   *)
(* each child INSTANCE once, under its first name -- convert the child's   *)
(* own children, then, if the child is a torch.nn module, put a fresh      *)
(* "triv" module with the same dictionary under that name.  The root       *)
(* itself is never replaced.                                               *)
(***************************************************************************)
EXTENDS Integers, Sequences, FiniteSets

Kids(st, m) == st.dicts[st.heap[m].d]

\* named_children(): positions of the first occurrence of every child instance (None entries do not occur here)
FirstPositions(kids) == {i \in 1 .. Len(kids) : \A j \in 1 .. i - 1 : kids[j][2] # kids[i][2]}

RECURSIVE Convert(_, _), ConvFrom(_, _, _, _)
\* the snapshot `todo` of (position, child) pairs is taken from the dictionary as the loop reaches each position: Python
\* iterates the live dict, whose size never changes (values are replaced in place)
ConvFrom(st, m, i, seen) ==
  IF i > Len(Kids(st, m)) THEN st
  ELSE LET c == Kids(st, m)[i][2] IN
       IF c \in seen THEN ConvFrom(st, m, i + 1, seen)
       ELSE LET s1 == Convert(st, c) IN
            IF s1.heap[c].cls # "torch" THEN ConvFrom(s1, m, i + 1, seen \cup {c})
            ELSE LET n == Len(s1.heap) + 1
                     h2 == Append(s1.heap, [cls |-> "triv", d |-> s1.heap[c].d])
                     dm == s1.heap[m].d
                     d2 == [s1.dicts EXCEPT ![dm] = [@ EXCEPT ![i] = <<@[1], n>>]]
                 IN ConvFrom([heap |-> h2, dicts |-> d2], m, i + 1, seen \cup {c})
Convert(st, m) == ConvFrom(st, m, 1, {})

\* ---- observable structure: the unfolding by attribute paths
RECURSIVE Paths(_, _, _)
Paths(st, m, depth) ==     \* set of <<path, module id>> reachable from m within `depth` steps
  {<<<<>>, m>>} \cup
  (IF depth = 0 THEN {} ELSE
   UNION {{<<<<Kids(st, m)[i][1]>> \o p[1], p[2]>> : p \in Paths(st, Kids(st, m)[i][2], depth - 1)} : i \in 1 .. Len(Kids(st, m))})
Reachable(st, depth) == {p[2] : p \in Paths(st, 1, depth)}
InDegree(st, c) == Cardinality({<<m, i>> \in (1 .. Len(st.heap)) \X (1 .. 4) : i <= Len(Kids(st, m)) /\ Kids(st, m)[i][2] = c})

\* ---- what a user of the transform relies on
RootKept(st0, st1) == st1.heap[1] = st0.heap[1]
UserKept(st0, st1, depth) == \A p \in Paths(st0, 1, depth) : st0.heap[p[2]].cls = "user" =>
                               \E q \in Paths(st1, 1, depth) : q[1] = p[1] /\ q[2] = p[2]
SamePaths(st0, st1, depth) == {p[1] : p \in Paths(st0, 1, depth)} = {p[1] : p \in Paths(st1, 1, depth)}
StateShared(st0, st1, depth) ==      \* every path leads to a module with the dictionary object the original had there
  \A p \in Paths(st0, 1, depth) : \A q \in Paths(st1, 1, depth) : q[1] = p[1] => st1.heap[q[2]].d = st0.heap[p[2]].d
\* with no instance registered twice (a tree), nothing of torch.nn origin is left below the root
AliasFree(st, depth) == \A c \in Reachable(st, depth) : InDegree(st, c) <= 1
AllConverted(st1, depth) == \A p \in Paths(st1, 1, depth) : p[1] # <<>> => st1.heap[p[2]].cls # "torch"
\* in general what is left are only instances that were registered under more than one name / parent
Leftovers(st1, depth) == {p[2] : p \in {q \in Paths(st1, 1, depth) : q[1] # <<>> /\ st1.heap[q[2]].cls = "torch"}}
=============================================================================
