------------------------------- MODULE Format -------------------------------
(* FPFormat construction and the (exponent, mantissa, rounding, srbits) tuple the transforms pass through FX graphs.   *)
(* C15 requires the transformed module to use "the value set, rounding mode and random-bit count of the formats the    *)
(* caller supplied": the tuple round trip must be the identity on every constructible format.                          *)
EXTENDS Integers, Sequences, TLC
CONSTANT Legacy
Roundings == {"stochastic", "nearest"}
\* __post_init__: rejects E < 2 and srbits # 0 for non-stochastic rounding; srbits = 0 means "all discarded bits"
Construct(E, M, r, s) ==
  IF E < 2 THEN [ok |-> FALSE, why |-> "exponent_bits"]
  ELSE IF s # 0 /\ r # "stochastic" THEN [ok |-> FALSE, why |-> "srbits_for_nearest"]
  ELSE [ok |-> TRUE, E |-> E, M |-> M, r |-> r, s |-> IF s = 0 /\ r = "stochastic" THEN 23 - M ELSE s]
ToTuple(f) == IF "tuple_drops_rounding" \in Legacy THEN <<f.E, f.M>> ELSE IF "tuple_drops_srbits" \in Legacy THEN <<f.E, f.M, f.r>> ELSE <<f.E, f.M, f.r, f.s>>
FromTuple(t) == Construct(t[1], t[2], IF Len(t) >= 3 THEN t[3] ELSE "stochastic", IF Len(t) >= 4 THEN t[4] ELSE 0)
RoundTrip(f) == FromTuple(ToTuple(f)) = f
Bits(f) == 1 + f.E + f.M
=============================================================================
