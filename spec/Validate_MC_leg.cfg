CONSTANTS Legacy = {"keywords_only"}  Emit = FALSE
SPECIFICATION Spec
INVARIANT RejectExactly
INVARIANT DecorationOK
INVARIANT EmitCall
