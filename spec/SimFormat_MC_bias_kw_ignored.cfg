CONSTANTS Legacy = {"bias_kw_ignored"}  MaxOps = 2
SPECIFICATION Spec
INVARIANT RefinesOK
INVARIANT UntouchedOK
INVARIANT ExecutesOK
INVARIANT WellFormedOK
