CONSTANTS Legacy = {"tau_both_passes_at_split"}  Phase = "resid"  MaxLen = 0  MaxNodes = 2  Emit = FALSE
SPECIFICATION Spec
INVARIANT ResidOK
INVARIANT TauSquares
INVARIANT EmitProg
