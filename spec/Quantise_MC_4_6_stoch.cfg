CONSTANTS HE = 4  HM = 6  Legacy = {}  Modes = {"stoch"}
SPECIFICATION Spec
INVARIANT StochNeighbourOK
INVARIANT StochFixedOK
INVARIANT StochMonotoneOK
INVARIANT StochCountValueOK
INVARIANT StochCountPatternOK
INVARIANT RangeOK
