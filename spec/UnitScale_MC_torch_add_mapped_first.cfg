CONSTANTS K = 3  Legacy = {"torch_add_mapped_first"}
SPECIFICATION Spec
INVARIANT AlgoRefinesRecipe
