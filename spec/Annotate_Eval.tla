--------------------------- MODULE Annotate_Eval ---------------------------
(* Direction A, point-wise: for every (abstract code lines, recorded scales) supplied by the harness emit the     *)
(* expected annotated text as [src, anns] records; the harness parses the text the real _annotate produced.        *)
EXTENDS Annotate, Json, IOUtils
Cases == JsonDeserialize(IOEnv.TRACE_FILE)
ToLine(l) == [k |-> l.k, name |-> l.name, args |-> [i \in 1 .. Len(l.args) |-> l.args[i]]]
Expect(c) ==
  LET lines == [i \in 1 .. Len(c.lines) |-> ToLine(c.lines[i])]
      scales == [i \in 1 .. Len(c.scales) |-> <<c.scales[i][1], c.scales[i][2]>>]
  IN [out |-> Annotated(lines, scales), tracked |-> TrackedAnnotated(lines, scales), nothing_else |-> NothingElse(lines, scales)]
Results == [i \in 1 .. Len(Cases) |-> Expect(Cases[i])]
VARIABLE done
Init == done = FALSE
Next == ~done /\ JsonSerialize(IOEnv.OUT_FILE, [out |-> Results, n |-> Len(Cases)]) /\ done' = TRUE
Spec == Init /\ [][Next]_done
=============================================================================
