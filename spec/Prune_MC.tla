------------------------------ MODULE Prune_MC ------------------------------
(* All tracked graphs with one placeholder, <= MaxOps op nodes and an output: *)
(* generated node by node, then each helper is run and C19OK checked.         *)
EXTENDS Prune
CONSTANTS MaxOps, Helpers

\* node kinds: unary float op (scale same / different), non-float op, binary add, cat over a list, op fed by keyword
Kinds == {"view", "scale", "size", "kwsize", "add", "cat", "kwop"}
VARIABLES g, phase
vars == <<g, phase>>
Mk(id, tgt, args, kw, fl, fwd, bwd) == [id |-> id, op |-> "call", tgt |-> tgt, args |-> args, kw |-> kw, float |-> fl, fwd |-> fwd, bwd |-> bwd]
Init == g = <<[id |-> 1, op |-> "placeholder", tgt |-> "x", args |-> <<>>, kw |-> <<>>, float |-> TRUE, fwd |-> <<1, 1>>, bwd |-> <<1, 1>>]>> /\ phase = "build"
OpCount == Len(g) - 1
NewNodes ==      \* every node that can be appended (parameters only where they matter)
  LET id == FreshId(g)  Bw == {<<1, 1>>, NoBwd}  Sc == {<<1, 1>>, <<2, 1>>} IN
     {Mk(id, "view", <<<<"n", a>>, <<"c", "4">>>>, <<>>, TRUE, NodeOf(g, a).fwd, bw) : a \in Ids(g), bw \in Bw}
  \cup {Mk(id, "mul2", <<<<"n", a>>>>, <<>>, TRUE, sc, bw) : a \in Ids(g), sc \in Sc, bw \in Bw}
  \cup {Mk(id, "size", <<<<"n", a>>>>, <<>>, FALSE, <<0, 1>>, NoBwd) : a \in Ids(g)}
  \cup {Mk(id, "kwsize", <<>>, <<<<"input", <<"n", a>>>>>>, FALSE, <<0, 1>>, NoBwd) : a \in Ids(g)}
  \cup {Mk(id, "add", <<<<"n", a>>, <<"n", b>>>>, <<>>, TRUE, sc, bw) : a \in Ids(g), b \in Ids(g), sc \in Sc, bw \in Bw}
  \cup {Mk(id, "cat", <<<<"l", <<<<"n", a>>, <<"n", b>>>>>>>>, <<<<"dim", <<"c", "0">>>>>>, TRUE, sc, bw) : a \in Ids(g), b \in Ids(g), sc \in Sc, bw \in {<<1, 1>>}}
  \cup {Mk(id, "kwop", <<>>, <<<<"input", <<"n", a>>>>, <<"other", <<"c", "1">>>>>>, TRUE, sc, bw) : a \in Ids(g), sc \in Sc, bw \in Bw}
AddOp == /\ phase = "build" /\ OpCount < MaxOps
         /\ \E n \in NewNodes : g' = Append(g, n)
         /\ UNCHANGED phase
Close == /\ phase = "build" /\ OpCount >= 1
         /\ \E o1 \in {g[Len(g)].id}, o2 \in Ids(g) \cup {0} :
              g' = Append(g, [id |-> FreshId(g), op |-> "output", tgt |-> "output",
                              args |-> <<<<"l", IF o2 = 0 THEN <<<<"n", o1>>>> ELSE <<<<"n", o1>>, <<"n", o2>>>>>>>>, kw |-> <<>>,
                              float |-> FALSE, fwd |-> <<0, 1>>, bwd |-> NoBwd])
         /\ phase' = "done"
Next == AddOp \/ Close
Spec == Init /\ [][Next]_vars
Rtols == {<<1, 65536>>, <<1, 4>>}
Targets == {{"view"}, {"add", "size"}, {"cat", "kwop", "mul2"}}
Done == phase = "done"
NonFloatOK == (Done /\ "non_float" \in Helpers) => C19OK(g, Run(g, "non_float", <<0, 1>>, {}), "non_float", {})
SameScaleOK == (Done /\ "same_scale" \in Helpers) => \A rt \in Rtols : C19OK(g, Run(g, "same_scale", rt, {}), "same_scale", {})
SelectedOK == (Done /\ "selected" \in Helpers) => \A t \in Targets : C19OK(g, Run(g, "selected", <<0, 1>>, t), "selected", t)
InputWellFormed == Done => WellFormed(g)
=============================================================================
