CONSTANTS Legacy = {}  MaxOps = 2
SPECIFICATION Spec
INVARIANT RefinesOK
INVARIANT UntouchedOK
INVARIANT ExecutesOK
INVARIANT WellFormedOK
