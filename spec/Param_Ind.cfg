CONSTANTS Legacy = {}  MaxLen = 1
SPECIFICATION IndSpec
INVARIANT IndInv
