CONSTANT Emit = TRUE
SPECIFICATION Spec
INVARIANT TableOK
INVARIANT TagsOK
INVARIANT ContainersOK
INVARIANT EmitCfg
