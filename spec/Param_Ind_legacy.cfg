CONSTANTS Legacy = {"copy_drops_hooks"}  MaxLen = 1
SPECIFICATION IndSpec
INVARIANT IndInv
