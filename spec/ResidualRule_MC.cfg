CONSTANTS LayerSet = {1, 2, 3, 4, 5, 6, 7, 8, 16, 31, 64, 100, 255, 256}  MaxExplicit = 6  Legacy = {}
SPECIFICATION Spec
INVARIANT AlphaSplit
INVARIANT OneStep
INVARIANT TauPositive
INVARIANT Totals
INVARIANT Explicit
