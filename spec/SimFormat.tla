------------------------------ MODULE SimFormat ------------------------------
(***************************************************************************)
(* unit_scaling.transforms.simulate_format (C15) on abstract FX graphs     *)
(* (module FxGraph).                                                       *)
(*  ALGORITHM  Rewrite: every call whose target is a linear / attention op *)
(*    (plain or unit-scaled) becomes a call of the matching _quantised_*   *)
(*    wrapper with the two format tuples spliced after the third           *)
(*    positional argument (bias taken from the keyword or None when absent,*)
(*    extra positional attention arguments turned into keywords).          *)
(*  Expand: the meaning of a wrapper call as explicit straight-through     *)
(*    quantisation nodes  Qf(fmt, x) (value quantised, gradient untouched) *)
(*    and Qb(fmt, y) (value untouched, gradient quantised).                *)
(*  RECIPE: directly from the input graph: the tensor operands of every    *)
(*    linear / attention node are wrapped in Qf(FWD), its output in        *)
(*    Qb(BWD); bias, mask, scalars, keywords and every other node are      *)
(*    untouched.  RewriteRefinesRecipe: Expand(Rewrite(G)) = Recipe(G).    *)
(* Formats are the opaque constants <<"c","FWD">> / <<"c","BWD">>: the     *)
(* full format (E, M, rounding, srbits) travels with them.                 *)
(***************************************************************************)
EXTENDS FxGraph

CONSTANT Legacy

LinearTargets == {"F.linear", "U.linear"}
AttnTargets == {"F.scaled_dot_product_attention", "U.scaled_dot_product_attention"}
Quantisable == LinearTargets \cup AttnTargets
QName(t) == IF t = "F.linear" THEN "q.linear" ELSE IF t = "U.linear" THEN "q.u_linear"
            ELSE IF t = "F.scaled_dot_product_attention" THEN "q.sdpa" ELSE "q.u_sdpa"
Unq(t) == IF t = "q.linear" THEN "F.linear" ELSE IF t = "q.u_linear" THEN "U.linear"
          ELSE IF t = "q.sdpa" THEN "F.scaled_dot_product_attention" ELSE "U.scaled_dot_product_attention"
FWD == <<"c", "FWD">>
BWD == <<"c", "BWD">>
IsQuantisable(n) == n.op = "call" /\ n.tgt \in Quantisable

KwGet(kw, key) == LET hits == {k \in 1 .. Len(kw) : kw[k][1] = key} IN IF hits = {} THEN <<>> ELSE <<kw[CHOOSE k \in hits : TRUE][2]>>
KwDrop(kw, key) == SelectSeq(kw, LAMBDA e : e[1] # key)
AttnNames == <<"attn_mask", "dropout_p", "is_causal">>

\* the tensor operands by ROLE: positional, or by keyword (TorchDynamo keeps the caller's argument style).  Positional(n) moves the
\* role-named keywords that continue the positional prefix into position.
RoleNames(n) == IF n.tgt \in AttnTargets THEN <<"query", "key", "value">> ELSE <<"input", "weight", "bias">>
RECURSIVE PositionalFrom(_, _, _)
PositionalFrom(n, args, kw) ==
  IF Len(args) >= 3 \/ KwGet(kw, RoleNames(n)[Len(args) + 1]) = <<>> THEN [n EXCEPT !.args = args, !.kw = kw]
  ELSE PositionalFrom(n, Append(args, KwGet(kw, RoleNames(n)[Len(args) + 1])[1]), KwDrop(kw, RoleNames(n)[Len(args) + 1]))
Positional(n) == IF Len(n.args) >= 3 THEN n ELSE PositionalFrom(n, n.args, n.kw)

\* ---- the algorithm: _replace_with_quantised on one node (before the fix only `bias` was looked up among the keywords and only when
\* exactly two operands were positional: Legacy "kw_operands_unsupported")
RewriteNode(n0) ==
  LET n == IF Legacy \cap {"kw_operands_unsupported", "bias_kw_ignored"} # {} THEN n0 ELSE Positional(n0)
      args == n.args
      twoArgs == Len(args) = 2
      biasKw == KwGet(n.kw, "bias")
      a3 == IF twoArgs THEN Append(args, IF "bias_kw_ignored" \in Legacy THEN NoneArg ELSE IF biasKw = <<>> THEN NoneArg ELSE biasKw[1]) ELSE args
      kw1 == IF twoArgs /\ ~("bias_kw_ignored" \in Legacy) THEN KwDrop(n.kw, "bias") ELSE n.kw
      extra == SubSeq(a3, 4, Len(a3))
      isAttn == n.tgt \in AttnTargets
      kw2 == IF isAttn /\ ~("attn_positional" \in Legacy) THEN kw1 \o [k \in 1 .. Len(extra) |-> <<AttnNames[k], extra[k]>>] ELSE kw1
      extra2 == IF isAttn /\ ~("attn_positional" \in Legacy) THEN <<>> ELSE extra
  IN [n EXCEPT !.tgt = QName(n.tgt), !.args = SubSeq(a3, 1, 3) \o <<FWD, BWD>> \o extra2, !.kw = kw2]
Rewrite(g) == [k \in 1 .. Len(g) |-> IF IsQuantisable(g[k]) THEN RewriteNode(g[k]) ELSE g[k]]

\* ---- meaning of the wrappers: explicit Qf / Qb nodes.  New nodes get fresh ids; the Qb node keeps the id of the call,
\* so every user is untouched.
Mk(id, tgt, args, kw) == [id |-> id, op |-> "call", tgt |-> tgt, args |-> args, kw |-> kw]
IsWrapper(n) == n.op = "call" /\ n.tgt \in {"q.linear", "q.u_linear", "q.sdpa", "q.u_sdpa"}
\* wrapper signature: (t1, t2, t3, fwd, bwd, *rest, **kw); linear quantises t1, t2 (t3 = bias), attention t1, t2, t3
ExpandNode(n, base) ==      \* sequence of nodes replacing wrapper call n; fresh ids base+1 ..
  LET isAttn == n.tgt \in {"q.sdpa", "q.u_sdpa"}
      f == n.args[4]   b == n.args[5]
      nq == IF isAttn THEN 3 ELSE 2
      qs == [k \in 1 .. nq |-> Mk(base + k, "Qf", <<f, n.args[k]>>, <<>>)]
      core == Mk(base + nq + 1, Unq(n.tgt),
                 [k \in 1 .. 3 |-> IF k <= nq THEN <<"n", base + k>> ELSE n.args[k]] \o SubSeq(n.args, 6, Len(n.args)), n.kw)
      core2 == IF ~isAttn /\ core.args[3] = NoneArg /\ Len(core.args) = 3 THEN [core EXCEPT !.args = SubSeq(core.args, 1, 2)] ELSE core
  IN qs \o <<core2, Mk(n.id, "Qb", <<b, <<"n", base + nq + 1>>>>, <<>>)>>
RECURSIVE ExpandFrom(_, _, _)
ExpandFrom(g, k, base) ==
  IF k > Len(g) THEN <<>>
  ELSE IF IsWrapper(g[k]) THEN LET e == ExpandNode(g[k], base) IN e \o ExpandFrom(g, k + 1, base + Len(e) - 1)
  ELSE <<g[k]>> \o ExpandFrom(g, k + 1, base)
Expand(g) == ExpandFrom(g, 1, FreshId(g) - 1)

\* ---- the recipe, straight from the input graph
RecipeNode(n0, base) ==
  LET n == Positional(n0)
      isAttn == n.tgt \in AttnTargets
      nq == IF isAttn THEN 3 ELSE 2
      qs == [k \in 1 .. nq |-> Mk(base + k, "Qf", <<FWD, n.args[k]>>, <<>>)]
      \* operands by role (input / weight, query / key / value); a linear's bias and everything else is left alone
      core == Mk(base + nq + 1, n.tgt, [k \in 1 .. Len(n.args) |-> IF k <= nq THEN <<"n", base + k>> ELSE n.args[k]], n.kw)
  IN qs \o <<core, Mk(n.id, "Qb", <<BWD, <<"n", base + nq + 1>>>>, <<>>)>>
RECURSIVE RecipeFrom(_, _, _)
RecipeFrom(g, k, base) ==
  IF k > Len(g) THEN <<>>
  ELSE IF IsQuantisable(g[k]) THEN LET e == RecipeNode(g[k], base) IN e \o RecipeFrom(g, k + 1, base + Len(e) - 1)
  ELSE <<g[k]>> \o RecipeFrom(g, k + 1, base)
Recipe(g) == RecipeFrom(g, 1, FreshId(g) - 1)

\* ---- comparison up to argument-passing style: a call is normalised to (positional tensors..., keyword set) where a
\* linear's bias and attention's mask / dropout / causal flag are keywords, and an absent / None bias is omitted
NormCall(n0) ==
  LET n == IF n0.op = "call" /\ n0.tgt \in Quantisable THEN Positional(n0) ELSE n0 IN
  IF n.op # "call" THEN n
  ELSE IF n.tgt \in LinearTargets THEN
    LET b == IF Len(n.args) >= 3 THEN <<n.args[3]>> ELSE KwGet(n.kw, "bias")
        kw == KwDrop(n.kw, "bias") \o (IF b = <<>> \/ b = <<NoneArg>> THEN <<>> ELSE <<<<"bias", b[1]>>>>)
    IN [n EXCEPT !.args = SubSeq(n.args, 1, 2) \o SubSeq(n.args, 4, Len(n.args)), !.kw = kw]
  ELSE IF n.tgt \in AttnTargets THEN
    LET extra == SubSeq(n.args, 4, Len(n.args))
    IN [n EXCEPT !.args = SubSeq(n.args, 1, 3), !.kw = n.kw \o [k \in 1 .. Len(extra) |-> <<AttnNames[k], extra[k]>>]]
  ELSE n
NormShape(g) == [k \in 1 .. Len(g) |-> LET n == NormCall(g[k]) IN <<n.id, n.op, n.tgt, n.args, {n.kw[j] : j \in 1 .. Len(n.kw)}>>]
RewriteRefinesRecipe(g) == NormShape(Expand(Rewrite(g))) = NormShape(Recipe(g))
\* nothing else changed: every non-quantisable node is identical, order preserved
OthersUntouched(g) == LET r == Rewrite(g) IN Len(r) = Len(g) /\ \A k \in 1 .. Len(g) : ~IsQuantisable(g[k]) => r[k] = g[k]
\* the rewritten call binds no parameter twice and stays within the wrappers' arity
WrapperCallOK(n) == IsWrapper(n) =>
  /\ \A j \in 1 .. Len(n.kw) : n.kw[j][1] \notin {"input", "weight", "bias", "query", "key", "value"} \/ (n.kw[j][1] = "bias" /\ FALSE)
  /\ (n.tgt \in {"q.sdpa", "q.u_sdpa"} => Len(n.args) = 5)
  /\ (n.tgt = "q.linear" => Len(n.args) = 5)
Executes(g) == \A k \in 1 .. Len(g) : WrapperCallOK(g[k])
=============================================================================
