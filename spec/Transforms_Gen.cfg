CONSTANTS Legacy = {}  MaxMods = 3  MaxCalls = 3  GenKinds = {"us", "q2", "track"}
SPECIFICATION GSpec
CONSTRAINT GenOnly
INVARIANT Emit
INVARIANT EffectiveIsOwn
INVARIANT RerunIsOwn
