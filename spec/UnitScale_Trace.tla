--------------------------- MODULE UnitScale_Trace ---------------------------
(***************************************************************************)
(* Validates runs of the real unit_scaling_backend against module          *)
(* UnitScale.  trace = [g, umap, out, err, ran]: the input FX graph        *)
(* (projected; ids = list positions), the user replacement map, the graph  *)
(* returned by the backend (ids renumbered to list positions), the         *)
(* exception text if it raised, and whether the returned module executed.  *)
(* Gating clauses are those of the property: no error, and the result's    *)
(* output term equals the RECIPE's term on the input graph.  Agreement     *)
(* with the step-by-step ALGORITHM model is reported as drift only.        *)
(***************************************************************************)
EXTENDS UnitScale, Json, IOUtils
Traces == JsonDeserialize(IOEnv.TRACE_FILE)
NT == Len(Traces)
RECURSIVE ToArg(_)
ToArg(a) == IF a[1] = "n" THEN N(a[2]) ELSE IF a[1] = "c" THEN C(a[2]) ELSE [k |-> "l", l |-> [i \in 1 .. Len(a[2]) |-> ToArg(a[2][i])]]
ToNode(n) == [op |-> n.op, tgt |-> n.tgt, args |-> [i \in 1 .. Len(n.args) |-> ToArg(n.args[i])],
              kw |-> [i \in 1 .. Len(n.kw) |-> [key |-> n.kw[i][1], val |-> ToArg(n.kw[i][2])]]]
ToG(js) == [nodes |-> [i \in 1 .. Len(js) |-> ToNode(js[i])], order |-> [i \in 1 .. Len(js) |-> i]]
IdsOK(js) == \A i \in 1 .. Len(js) : js[i].id = i
TgtSeq(G) == [i \in 1 .. Len(G.order) |-> G.nodes[G.order[i]].tgt]

Verdict(t) ==
  IF ~IdsOK(t.g) THEN <<"harness_ids", FALSE>>
  ELSE LET G0 == ToG(t.g)  um == [i \in 1 .. Len(t.umap) |-> <<t.umap[i][1], t.umap[i][2]>>] IN
  IF ~InFamily(G0) THEN <<"harness_graph_outside_family", FALSE>>
  ELSE IF t.err # "" THEN <<"backend_raised", FALSE>>
  ELSE IF ~IdsOK(t.out) THEN <<"harness_ids", FALSE>>
  ELSE LET Gout == ToG(t.out)  A == Compact(RunAlgo(StartState(G0, um)).G)
           drift == ShapeSeq(A) # ShapeSeq(Gout) IN
       IF ~MatchesRecipe(Gout, G0, um) THEN <<"result_differs_from_user_guide_recipe", drift>>
       ELSE IF ~Executes(Gout) \/ ~t.ran THEN <<"result_does_not_execute", drift>>
       ELSE <<"ok", drift>>

VARIABLES l, fails, drifts
vars == <<l, fails, drifts>>
Init == l = 1 /\ fails = <<>> /\ drifts = <<>>
Step1 == /\ l <= NT
         /\ LET v == Verdict(Traces[l]) IN
              /\ fails' = IF v[1] = "ok" \/ Len(fails) >= 50 THEN fails ELSE Append(fails, <<l, v[1]>>)
              /\ drifts' = IF v[2] /\ Len(drifts) < 20 THEN Append(drifts, <<l, "algorithm_model">>) ELSE drifts
         /\ l' = l + 1
Finish == /\ l = NT + 1
          /\ JsonSerialize(IOEnv.OUT_FILE, [fails |-> fails, drifts |-> drifts, n |-> NT, ev |-> NT])
          /\ l' = NT + 2 /\ UNCHANGED <<fails, drifts>>
Spec == Init /\ [][Step1 \/ Finish]_vars
=============================================================================
