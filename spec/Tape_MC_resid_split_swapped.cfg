CONSTANTS Legacy = {"split_swapped"}  Phase = "resid"  MaxLen = 0  MaxNodes = 2  Emit = FALSE
SPECIFICATION Spec
INVARIANT ResidOK
INVARIANT TauSquares
INVARIANT EmitProg
