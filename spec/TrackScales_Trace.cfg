CONSTANTS VecLen = 2  Legacy = {}
SPECIFICATION Spec
