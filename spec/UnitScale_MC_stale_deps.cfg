CONSTANTS K = 3  Legacy = {"stale_deps"}
SPECIFICATION Spec
INVARIANT AlgoRefinesRecipe
