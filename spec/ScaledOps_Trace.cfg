SPECIFICATION Spec
