CONSTANTS N = 3  Emit = FALSE
SPECIFICATION Spec
INVARIANT InvRoot
INVARIANT InvUser
INVARIANT InvPaths
INVARIANT InvState
INVARIANT InvTree
INVARIANT InvLeftovers
INVARIANT InvProgress
INVARIANT EmitCase
