--------------------------- MODULE TrackScales_MC ---------------------------
EXTENDS TrackScales
CONSTANTS MaxOps, NInputVecs
Inputs == IF NInputVecs = 2 THEN {<<-1, 2>>, <<0, 2>>} ELSE {<<-1, 2>>, <<0, 2>>, <<2, -1>>}
Ups == {<<1, -2>>, <<-2, 1>>}
VARIABLES p, phase, outs
vars == <<p, phase, outs>>
Mk(op, a, b, c) == [op |-> op, a |-> a, b |-> b, c |-> c, v |-> Zero]
Init == p = <<>> /\ phase = "inputs" /\ outs = {}
AddInput == phase = "inputs" /\ Len(p) < 2 /\ \E v \in Inputs : p' = Append(p, [op |-> "input", a |-> 0, b |-> 0, c |-> 0, v |-> v]) /\ UNCHANGED <<phase, outs>>
StartOps == phase = "inputs" /\ Len(p) >= 1 /\ phase' = "ops" /\ UNCHANGED <<p, outs>>
NIn == Cardinality({i \in 1 .. Len(p) : p[i].op = "input"})
FloatIdx == {i \in 1 .. Len(p) : IsFloat(p[i])}
MaskIdx == {i \in 1 .. Len(p) : p[i].op = "isneg"}
AddOp == /\ phase = "ops" /\ Len(p) - NIn < MaxOps
         /\ \/ \E o \in {"neg", "mul2", "relu", "detach", "isneg"}, a \in FloatIdx : p' = Append(p, Mk(o, a, 0, 0))
            \/ \E o \in {"add", "sub", "mul"}, a \in FloatIdx, b \in FloatIdx : p' = Append(p, Mk(o, a, b, 0))
            \/ \E a \in FloatIdx, b \in FloatIdx, c \in MaskIdx : p' = Append(p, Mk("where", a, b, c))
         /\ UNCHANGED <<phase, outs>>
Close == /\ phase = "ops" /\ Len(p) > NIn
         /\ \E o1 \in {i \in FloatIdx : i = Len(p) \/ (~IsFloat(p[Len(p)]) /\ i = Len(p) - 1)}, o2 \in FloatIdx \cup {0} :
              outs' = {o1} \cup (IF o2 = 0 THEN {} ELSE {o2})
         /\ phase' = "done" /\ UNCHANGED p
Next == AddInput \/ StartOps \/ AddOp \/ Close
Spec == Init /\ [][Next]_vars
UpFor(u) == [m \in 1 .. Len(p) |-> u]
C18Design == phase = "done" => \A u \in Ups : Observational(p, outs, UpFor(u))
=============================================================================
