------------------------------- MODULE Tape_MC -------------------------------
EXTENDS Tape, Json
CONSTANTS Phase, MaxLen, MaxNodes, Emit
Factors == {<<-1000, 1>>, <<-3, 1>>, <<-1, 1>>, <<-1, 2>>, <<0, 1>>, <<1, 1000>>, <<1, 2>>, <<1, 1>>, <<2, 1>>, <<1000, 1>>}
VARIABLES ch, par
vars == <<ch, par>>
Init == ch = <<>> /\ par = <<>>
AddPrim == Phase = "prim" /\ Len(ch) < MaxLen /\ \E k \in {"fwd", "bwd"}, s \in Factors : ch' = Append(ch, <<k, s>>) /\ UNCHANGED par
AddNode == Phase = "resid" /\ Len(par) < MaxNodes /\ \E p \in 0 .. Len(par) : par' = Append(par, p) /\ ValidPar(par') /\ UNCHANGED ch
Next == AddPrim \/ AddNode
Spec == Init /\ [][Next]_vars

st == RunChain([f |-> SOne, b |-> SOne], ch)
ChainOK == st.f = ProdOf(ch, "fwd") /\ st.b = ProdOf(ch, "bwd")
EmitChain == (Emit /\ Phase = "prim" /\ Len(ch) >= 1) => PrintT(<<"CHAIN", ToJson([ch |-> ch, f |-> st.f, b |-> st.b])>>)

ResidOK == (Len(par) >= 1) => TrueGradient(par) /\ ForwardIsMix(par) /\ Unattenuated
TauSquares == \A t2 \in {<<1, 64>>, <<1, 4>>, <<1, 1>>, <<4, 1>>, <<64, 1>>} :   \* (tau/d)^2 + (1/d)^2 = 1 with d^2 = 1 + tau^2
   LET d2 == SNorm(t2[1] + t2[2], t2[2])  r2 == SNorm(t2[1] * d2[2], t2[2] * d2[1])  k2 == SNorm(d2[2], d2[1])
   IN SNorm(r2[1] * k2[2] + k2[1] * r2[2], r2[2] * k2[2]) = SOne
EmitProg == (Emit /\ Phase = "resid" /\ Len(par) >= 1) =>
   PrintT(<<"PROG", ToJson([par |-> par, paths |-> {PathRec(par, c) : c \in Paths(par)}, addbwd |-> AddBranchBwd])>>)
=============================================================================
