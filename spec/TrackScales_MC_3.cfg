CONSTANTS VecLen = 2  Legacy = {}  MaxOps = 3  NInputVecs = 2
SPECIFICATION Spec
INVARIANT C18Design
