CONSTANTS K = 3  Legacy = {"add_constraint_positional"}
SPECIFICATION Spec
INVARIANT AlgoRefinesRecipe
