CONSTANTS Legacy = {}  Phase = "loop"  MaxGroups = 2  Emit = FALSE
SPECIFICATION Spec
INVARIANT LoopC11
INVARIANT LoopMatchesRun
INVARIANT LoopErrors
INVARIANT PrefixOrder
INVARIANT EmitLoop
