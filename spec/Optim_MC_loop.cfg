CONSTANTS Legacy = {}  Phase = "loop"  MaxGroups = 2  Emit = TRUE
SPECIFICATION Spec
INVARIANT LoopC11
INVARIANT LoopMatchesRun
INVARIANT LoopErrors
INVARIANT PrefixOrder
INVARIANT EmitLoop
