----------------------------- MODULE ScaledOps_MC -----------------------------
(* Exhaustive check of the C03 design over small shapes: for every pinned op,  *)
(* slot and configuration, Scale2 * Count = 1 (with the documented exceptions),*)
(* the closed-form Count agrees with the explicit index-set CountSet, residual *)
(* weights' squares sum to 1; plus well-formedness of the op tables, and the   *)
(* memo machine refuses a data-dependent factor.                               *)
EXTENDS ScaledOps

CONSTANTS MaxDim, Legacy

D == 1 .. MaxDim
Shapes3 == {<<>>} \cup {<<a>> : a \in 1 .. 3} \cup {<<a, b>> : a, b \in 1 .. 3} \cup {<<a, b, c>> : a, b, c \in 1 .. 3}
Broadcastable(sa, sb) == LET n == Max2(Len(sa), Len(sb))  a == Pad(sa, n)  b == Pad(sb, n)
                         IN \A j \in 1 .. n : a[j] = b[j] \/ a[j] = 1 \/ b[j] = 1

VARIABLES c
Init == c = [op |-> "none"]
PickLinear == \E o \in {"linear", "linear_readout"}, fi \in D, fo \in D, bt \in {1, 2, 3, 6, 12, 18}, bs \in BOOLEAN :
   c' = [op |-> o, fi |-> fi, fo |-> fo, batch |-> bt, bias |-> bs]
PickMatmul == \E a \in D, b \in D, cc \in D : c' = [op |-> "matmul", a |-> a, b |-> b, c |-> cc]
PickConv == \E ci \in 1 .. 2, co \in 1 .. 2, g \in {1, 2}, k \in 1 .. 4, s \in 1 .. 3, dl \in 1 .. 2, ex \in {0, 1, 4}, bt \in {1, 3}, pd \in {0, 1} :
   c' = [op |-> "conv1d", cin |-> ci * g, cout |-> co * g, groups |-> g, k |-> k, stride |-> s, dil |-> dl, pad |-> pd,
         len |-> 2 * dl * (k - 1) + 2 * s + 1 + ex, batch |-> bt, bias |-> TRUE]
PickAdd == \E sa \in Shapes3, sb \in Shapes3 : Broadcastable(sa, sb) /\ c' = [op |-> "add", sa |-> sa, sb |-> sb]
PickEmb == \E v \in 1 .. 6, m \in 1 .. 3 : c' = [op |-> "embedding", vocab |-> v, batch |-> v * m]
PickDrop == \E p \in {<<1, 4>>, <<1, 2>>, <<3, 4>>} : c' = [op |-> "dropout", p |-> p]
PickMse == c' = [op |-> "mse_loss"]
PickNorm == \E o \in {"layer_norm", "rms_norm"}, ns \in {1, 2, 4, 6}, rows \in {1, 2, 3, 9}, bs \in BOOLEAN, ws \in BOOLEAN :
   c' = [op |-> o, normsize |-> ns, numel |-> ns * rows, bias |-> bs, weight |-> ws \/ o = "rms_norm"]
PickResid == \E t2 \in {<<1, 4>>, <<1, 1>>, <<4, 1>>, <<1, 64>>, <<9, 4>>} : c' = [op |-> "residual_add", tau2 |-> t2]
Next == c.op = "none" /\ (PickLinear \/ PickMatmul \/ PickConv \/ PickAdd \/ PickEmb \/ PickDrop \/ PickMse \/ PickNorm \/ PickResid)
Spec == Init /\ [][Next]_c
Ready == c.op # "none"

\* a deviation for the non-vacuity self-test: batch taken from the first dimension only (here: a wrong count)
Sc2(slot) == IF "conv_drops_kernel" \in Legacy /\ c.op = "conv1d" /\ slot = "out" THEN R(1, c.cin \div c.groups) ELSE Scale2(c, slot)
UnitScaleOK == Ready => \A sl \in PinnedSlots(c) : Exception(c, sl) \/ RMul(Sc2(sl), Count(c, sl)) = ROne
CountsAgree == Ready => \A sl \in PinnedSlots(c) : (c.op = "conv1d" /\ c.pad > 0 /\ sl # "bias") \/ Count(c, sl) = CountSet(c, sl)
ResidualOK == Ready => ResidualWeights(c)
ReadoutOK == Ready => ReadoutOutput(c)
ScalesPositive == Ready => \A sl \in PinnedSlots(c) : IsRat(Scale2(c, sl)) /\ Scale2(c, sl)[1] > 0

\* tables
TablesOK ==
  /\ \A o \in Ops : \A k \in 1 .. Len(Group(o)) : Group(o)[k] \in Slots(o) \cup {"out"}
  /\ \A o \in Ops : Group(o) # <<>> => FixedGroup(o) = {} /\ Group(o)[1] = "out"
  /\ \A o \in Exact1Ops : Group(o) = <<>> /\ FixedGroup(o) = {}
  /\ \A o \in Ops : DefaultConstraint(o) \in ValidNames(o) \cup {"to_output_scale"}
  /\ \A o \in Ops : {"weight", "bias"} \cap ({Group(o)[k] : k \in 1 .. Len(Group(o))} \cup FixedGroup(o)) = {}
\* the memo machine rejects exactly the logs that are not functional
MemoOK ==
  LET log1 == <<[key |-> <<1, "out">>, cls |-> 1], [key |-> <<1, "input">>, cls |-> 2], [key |-> <<1, "out">>, cls |-> 1]>>
      log2 == <<[key |-> <<1, "out">>, cls |-> 1], [key |-> <<1, "out">>, cls |-> 2]>>
      RECURSIVE Run(_, _)
      Run(memo, lg) == IF lg = <<>> THEN TRUE ELSE LET o == Observe(memo, Head(lg).key, Head(lg).cls) IN o.ok /\ Run(o.memo, Tail(lg))
      E == [k \in {} |-> 0]
  IN Run(E, log1) /\ Functional(log1) /\ ~Run(E, log2) /\ ~Functional(log2)
=============================================================================
