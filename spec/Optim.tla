------------------------------- MODULE Optim -------------------------------
(***************************************************************************)
(* unit_scaling.optim: the u-muP learning-rate rule (C10) and the          *)
(* scaled_parameters loop over parameter groups with learning-rate CELLS   *)
(* (a python float is a value, a tensor is a heap cell with identity) (C11)*)
(***************************************************************************)
EXTENDS Rat, Sequences, FiniteSets, TLC

CONSTANT Legacy      \* named deviations, e.g. {"clone_only_tagged"}, {"no_clone"}

Tags == {"weight", "bias", "norm", "output"}
Optimizers == {"adam", "adamw", "sgd"}
Readouts == {"none", "to_output_scale"}

-----------------------------------------------------------------------------
(* C10: the squared learning-rate factor, a total case analysis.            *)
(* shape is a sequence of 1..4 positive ints, depth 0 stands for None.      *)
(* Result: [ok |-> TRUE, f2 |-> rational]  or  [ok |-> FALSE, err |-> name] *)

FanIn(shape) ==
  IF Len(shape) = 1 THEN shape[1]
  ELSE IF Len(shape) = 2 THEN shape[2]
  ELSE IF Len(shape) = 3 THEN shape[2] * shape[3]
  ELSE 0                                             \* ndim >= 4: no fan-in

DepthF2(depth) == IF depth = 0 THEN ROne ELSE R(1, depth)

AdamLike(opt, readout) == opt \in {"adam", "adamw"} \/ readout = "none"

LrFactor2(opt, readout, tag, shape, depth) ==
  IF tag = "weight" /\ Len(shape) >= 4 THEN [ok |-> FALSE, err |-> "fan_in_ndim"]
  ELSE IF AdamLike(opt, readout) THEN
    [ok |-> TRUE, f2 |-> RMul(DepthF2(depth), IF tag = "weight" THEN R(1, FanIn(shape)) ELSE ROne)]
  ELSE \* SGD whose readout is constrained to its output scale: gradients are not unit-scaled
    [ok |-> TRUE, f2 |-> RMul(DepthF2(depth),
        IF tag = "weight" THEN RInt(FanIn(shape))
        ELSE IF tag \in {"bias", "norm"} THEN RInt(shape[1] * shape[1])
        ELSE ROne)]

\* outcome of asking for the learning rate of one parameter
\* tag "" = untagged; lrGiven = an lr is available (group's or global)
ParamOutcome(opt, readout, tag, shape, depth, lrGiven, allowUntagged) ==
  IF ~lrGiven THEN [ok |-> FALSE, err |-> "lr_missing"]
  ELSE IF tag = "" THEN (IF allowUntagged THEN [ok |-> TRUE, f2 |-> ROne] ELSE [ok |-> FALSE, err |-> "untagged"])
  ELSE LrFactor2(opt, readout, tag, shape, depth)

-----------------------------------------------------------------------------
(* C12: width-independent updates.  For a layer whose output element sums   *)
(* `terms` products weight*(+-1 input), first Adam step (eps = 0):          *)
(*   (delta_out / eta)^2 = OutScale2 * LrFactor2 * terms^2                  *)
OutScale2(kind, fanIn, k) ==       \* linear: 1/fan_in ; readout: 1/fan_in^2 ; conv: 1/(fan_in*k)
  IF kind = "linear" THEN R(1, fanIn)
  ELSE IF kind = "readout" THEN RMul(R(1, fanIn), R(1, fanIn))
  ELSE R(1, fanIn * k)
LayerTag(kind) == IF kind = "readout" THEN "output" ELSE "weight"
LayerShape(kind, fanIn, fanOut, k) == IF kind = "conv1d" THEN <<fanOut, fanIn, k>> ELSE <<fanOut, fanIn>>
Terms(kind, fanIn, k) == IF kind = "conv1d" THEN fanIn * k ELSE fanIn
UpdateSize2(kind, fanIn, fanOut, k, depth) ==
  \* (scale * terms)^2 * lr^2, multiplied in an order that keeps 32-bit intermediates small
  RMul(RMul(OutScale2(kind, fanIn, k), RInt(Terms(kind, fanIn, k))),
       RMul(LrFactor2("adam", "none", LayerTag(kind), LayerShape(kind, fanIn, fanOut, k), depth).f2,
            RInt(Terms(kind, fanIn, k))))

-----------------------------------------------------------------------------
(* C11: scaled_parameters as a loop.                                        *)
(* Input:  [glr, gwd, indep, allow, groups]                                 *)
(*   glr    0 = None, -1 = a python float, c > 0 = tensor cell c            *)
(*   gwd    weight decay id of the call (0 = the default 0)                 *)
(*   groups sequence of [params |-> Seq([id, tagged]), lr (as glr, 0 = no   *)
(*          own lr), wd (0 = no own weight_decay, else an id), keys]        *)
(* Result group: [p, lr, src, wd, indep, keys] where lr = -1 (float) or a   *)
(* fresh cell id, src = the input lr it was derived from (-1 or cell id),   *)
(* wd = id of the requested decay, indep = divided by the scaled lr.        *)

CallerCells(inp) == {c \in {inp.glr} \cup {inp.groups[i].lr : i \in 1 .. Len(inp.groups)} : c > 0}
MaxCell(inp) == IF CallerCells(inp) = {} THEN 0 ELSE CHOOSE c \in CallerCells(inp) : \A d \in CallerCells(inp) : c >= d

GroupLr(inp, g) == IF inp.groups[g].lr # 0 THEN inp.groups[g].lr ELSE inp.glr
GroupWd(inp, g) == IF inp.groups[g].wd # 0 THEN inp.groups[g].wd ELSE inp.gwd

\* loop state: [g, i, res, next, err, touched]
\*   next: next fresh cell id; touched: caller cells written in place
LoopInit(inp) == [g |-> 1, i |-> 1, res |-> <<>>, next |-> MaxCell(inp) + 1, err |-> "", touched |-> {}]
LoopDone(inp, s) == s.err # "" \/ s.g > Len(inp.groups)

ProcessParam(inp, s) ==
  LET grp == inp.groups[s.g]
      lr == GroupLr(inp, s.g)
  IN IF lr = 0 THEN [s EXCEPT !.err = "lr_missing"]
     ELSE IF s.i > Len(grp.params) THEN [s EXCEPT !.g = s.g + 1, !.i = 1]
     ELSE
       LET p == grp.params[s.i]
           clone == lr > 0 /\ ~("no_clone" \in Legacy) /\ (p.tagged \/ ~("clone_only_tagged" \in Legacy))
           outlr == IF lr < 0 THEN -1 ELSE IF clone THEN s.next ELSE lr
       IN IF ~p.tagged /\ ~inp.allow THEN [s EXCEPT !.err = "untagged"]
          ELSE [s EXCEPT
                 !.i = s.i + 1,
                 !.next = IF clone THEN s.next + 1 ELSE s.next,
                 !.touched = IF lr > 0 /\ ~clone /\ p.tagged THEN s.touched \cup {lr} ELSE s.touched,
                 !.res = Append(s.res, [p |-> p.id, lr |-> outlr, src |-> lr, scaled |-> p.tagged,
                                         wd |-> GroupWd(inp, s.g), indep |-> inp.indep, keys |-> grp.keys])]

RECURSIVE RunLoop(_, _)
RunLoop(inp, s) == IF LoopDone(inp, s) THEN s ELSE RunLoop(inp, ProcessParam(inp, s))
Result(inp) == RunLoop(inp, LoopInit(inp))

\* ---- what C11 demands of a finished, error-free run
InputParams(inp) ==
  LET RECURSIVE Cat(_)
      Cat(g) == IF g > Len(inp.groups) THEN <<>>
                ELSE [k \in 1 .. Len(inp.groups[g].params) |-> inp.groups[g].params[k].id] \o Cat(g + 1)
  IN Cat(1)
OrderPreserved(inp, s) == [k \in 1 .. Len(s.res) |-> s.res[k].p] = InputParams(inp)
NoAlias(inp, s) ==
  /\ \A k \in 1 .. Len(s.res) : s.res[k].lr > 0 => s.res[k].lr \notin CallerCells(inp)
  /\ \A j, k \in 1 .. Len(s.res) : (j # k /\ s.res[j].lr > 0) => s.res[j].lr # s.res[k].lr
CallerUntouched(inp, s) == s.touched = {}
KindKept(inp, s) == \A k \in 1 .. Len(s.res) : (s.res[k].lr > 0) = (s.res[k].src > 0)
C11OK(inp, s) == s.err = "" => (OrderPreserved(inp, s) /\ NoAlias(inp, s) /\ CallerUntouched(inp, s) /\ KindKept(inp, s))

\* one optimizer step (SGD or AdamW) with zero gradient multiplies the parameter by
\* 1 - lr * weight_decay_of_group = 1 - requested decay when the decay is lr-independent
RECURSIVE RPow(_, _)
RPow(a, n) == IF n = 0 THEN ROne ELSE RMul(a, RPow(a, n - 1))
DecayFactor(wd, steps) == RPow(RSub(ROne, wd), steps)
=============================================================================
