CONSTANTS VecLen = 2  Legacy = {}  MaxOps = 2  NInputVecs = 3
SPECIFICATION Spec
INVARIANT C18Design
