---------------------------- MODULE Annotate_MC ----------------------------
(* Every code text of <= MaxLines abstract lines over two names x every scale dictionary over those names.  *)
EXTENDS Annotate, TLC
CONSTANTS MaxLines
N == {"a", "b"}
LineSet == {[k |-> "wrap", name |-> "", args |-> <<>>], [k |-> "blank", name |-> "", args |-> <<>>], [k |-> "other", name |-> "", args |-> <<>>]}
           \cup {[k |-> "assign", name |-> n, args |-> <<>>] : n \in N}
           \cup {[k |-> "def", name |-> "", args |-> a] : a \in {<<>>, <<"a">>, <<"a", "b">>, <<"b", "a">>}}
ScaleSet == {<<>>, <<<<"a", "sa">>>>, <<<<"b", "sb">>>>, <<<<"a", "sa">>, <<"b", "sb">>>>, <<<<"b", "sb">>, <<"a", "sa">>>>}
VARIABLES lines, scales
Init == lines \in UNION {[1 .. n -> LineSet] : n \in 0 .. MaxLines} /\ scales \in ScaleSet
Next == UNCHANGED <<lines, scales>>
Spec == Init /\ [][Next]_<<lines, scales>>
InvTracked == TrackedAnnotated(lines, scales)
InvNothingElse == NothingElse(lines, scales)
\* the signature lists its tracked parameters in SIGNATURE order, not dictionary order
InvDefOrder == \A i \in 1 .. Len(lines) : lines[i].k = "def" =>
   LET o == Annotated(lines, scales)  j == CHOOSE x \in 1 .. Len(o) : o[x].src = i IN
   Len(o[j].anns) = Cardinality({x \in 1 .. Len(lines[i].args) : lines[i].args[x] \in Names(scales)})
=============================================================================
