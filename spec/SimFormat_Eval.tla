--------------------------- MODULE SimFormat_Eval ---------------------------
(* Direction A: for every harness-supplied input graph emit the RECIPE graph (explicit Qf / Qb nodes), which the  *)
(* harness builds into a reference module, and the algorithm model's rewritten graph (compared as drift only).    *)
EXTENDS SimFormat, Json, IOUtils
Cases == JsonDeserialize(IOEnv.TRACE_FILE)
RECURSIVE ToArg(_)
ToArg(a) == IF a[1] = "l" THEN <<"l", [k \in 1 .. Len(a[2]) |-> ToArg(a[2][k])]>> ELSE <<a[1], a[2]>>
ToNode(n) == [id |-> n.id, op |-> n.op, tgt |-> n.tgt, args |-> [k \in 1 .. Len(n.args) |-> ToArg(n.args[k])],
              kw |-> [k \in 1 .. Len(n.kw) |-> <<n.kw[k][1], ToArg(n.kw[k][2])>>]]
ToGraph(js) == [k \in 1 .. Len(js) |-> ToNode(js[k])]
Expect(c) == LET g == ToGraph(c) IN
  [wf |-> WellFormed(g), recipe |-> Recipe(g), rewrite |-> Rewrite(g), refines |-> RewriteRefinesRecipe(g), executes |-> Executes(Rewrite(g)),
   nquant |-> Cardinality({k \in 1 .. Len(g) : IsQuantisable(g[k])})]
Out == [i \in 1 .. Len(Cases) |-> Expect(Cases[i])]
VARIABLE done
Init == done = FALSE
Next == ~done /\ JsonSerialize(IOEnv.OUT_FILE, [out |-> Out, n |-> Len(Cases)]) /\ done' = TRUE
Spec == Init /\ [][Next]_done
=============================================================================
