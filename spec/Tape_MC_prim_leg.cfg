CONSTANTS Legacy = {"fwd_touches_bwd"}  Phase = "prim"  MaxLen = 3  MaxNodes = 0  Emit = FALSE
SPECIFICATION Spec
INVARIANT ChainOK
INVARIANT EmitChain
