-------------------------------- MODULE Rat --------------------------------
(* Non-negative rationals as normalised pairs <<num, den>> (den > 0), for   *)
(* SQUARED scale factors, learning-rate factors and term counts.  TLC ints *)
(* are 32-bit and overflow raises an error, so an out-of-range case aborts *)
(* the run instead of producing a wrong verdict.                           *)
EXTENDS Integers

RECURSIVE GCD(_, _)
GCD(a, b) == IF b = 0 THEN a ELSE GCD(b, a % b)

RNorm(n, d) == LET g == GCD(n, d) IN IF n = 0 THEN <<0, 1>> ELSE <<n \div g, d \div g>>
R(n, d) == RNorm(n, d)
RInt(n) == <<n, 1>>
ROne == <<1, 1>>
RMul(a, b) == LET g1 == GCD(a[1], b[2])  g2 == GCD(b[1], a[2])
              IN IF a[1] = 0 \/ b[1] = 0 THEN <<0, 1>>
                 ELSE <<(a[1] \div g1) * (b[1] \div g2), (a[2] \div g2) * (b[2] \div g1)>>
RInv(a) == <<a[2], a[1]>>
RDiv(a, b) == RMul(a, RInv(b))
RAdd(a, b) == LET g == GCD(a[2], b[2]) IN RNorm(a[1] * (b[2] \div g) + b[1] * (a[2] \div g), (a[2] \div g) * b[2])
RSub(a, b) == LET g == GCD(a[2], b[2]) IN RNorm(a[1] * (b[2] \div g) - b[1] * (a[2] \div g), (a[2] \div g) * b[2])
RLeq(a, b) == a[1] * b[2] <= b[1] * a[2]
RLt(a, b) == a[1] * b[2] < b[1] * a[2]
REq(a, b) == a[1] * b[2] = b[1] * a[2]
IsRat(a) == a = <<0, 1>> \/ (a[1] \in Nat \ {0} /\ a[2] \in Nat \ {0} /\ GCD(a[1], a[2]) = 1)
=============================================================================
