CONSTANTS VecLen = 2  Legacy = {"tracker_detaches"}  MaxOps = 2  NInputVecs = 2
SPECIFICATION Spec
INVARIANT C18Design
