---------------------------- MODULE UnitScale_MC ----------------------------
(* All graphs with 2 placeholders and K op nodes over {mapped unary (gelu), unmapped unary (tanh), softmax, linear,  *)
(* add, iadd, tensor+scalar add, user-replaced op}, then the algorithm step by step; at termination the algorithm's   *)
(* output term must equal the recipe's term and the result must execute, for every graph in the family.               *)
EXTENDS UnitScale
CONSTANTS K
VARIABLES G, s, phase, G0
vars == <<G, s, phase, G0>>
PH(name) == [op |-> "placeholder", tgt |-> name, args |-> <<>>, kw |-> <<>>]
Call(t, args, kw) == [op |-> "call", tgt |-> t, args |-> args, kw |-> kw]
UMap == <<<<"my.op", "U.gelu">>, <<"F.silu", "my.silu">>>>       \* a user op mapped to U.gelu; a built-in overridden by the user
EmptyS == [G |-> [nodes |-> <<>>, order |-> <<>>], pc |-> "none", cur |-> 0, deps |-> [x \in {} |-> {}], rmeta |-> [x \in {} |-> 0], umap |-> <<>>]
Init == /\ G = [nodes |-> <<PH("x"), PH("w")>>, order |-> <<1, 2>>] /\ phase = "gen" /\ s = EmptyS /\ G0 = G
Unary == {"F.gelu", "torch.tanh", "torch.softmax", "my.op", "F.silu"}      \* torch.softmax: a spelling that is not F.softmax (both are softmax)
GenAdds == {"op.add", "torch.add", "m:add_"}      \* one representative per family of add forms (operator / function / method)
Gen == /\ phase = "gen"
       /\ LET n == Len(G.nodes) IN
          IF n = K + 2
          THEN LET G1 == [nodes |-> Append(G.nodes, [op |-> "output", tgt |-> "output", args |-> <<N(n)>>, kw |-> <<>>]), order |-> Append(G.order, n + 1)]
               IN G' = G1 /\ G0' = G1 /\ phase' = "run" /\ s' = StartState(G1, UMap)
          ELSE /\ \/ \E t \in Unary, a \in 1 .. n : G' = [nodes |-> Append(G.nodes, Call(t, <<N(a)>>, <<>>)), order |-> Append(G.order, n + 1)]
                  \/ \E a \in 1 .. n : G' = [nodes |-> Append(G.nodes, Call("F.linear", <<N(a), N(2)>>, <<>>)), order |-> Append(G.order, n + 1)]
                  \/ \E t \in GenAdds, a \in 1 .. n, b \in 1 .. n : G' = [nodes |-> Append(G.nodes, Call(t, <<N(a), N(b)>>, <<>>)), order |-> Append(G.order, n + 1)]
                  \/ \E a \in 1 .. n : G' = [nodes |-> Append(G.nodes, Call("op.add", <<N(a), C("2")>>, <<>>)), order |-> Append(G.order, n + 1)]
               /\ UNCHANGED <<s, phase, G0>>
Run == /\ phase = "run" /\ s.pc # "Done" /\ s' = Step(s) /\ UNCHANGED <<G, phase, G0>>
Next == Gen \/ Run
Spec == Init /\ [][Next]_vars
Done == phase = "run" /\ s.pc = "Done"
AlgoRefinesRecipe == (Done /\ InFamily(G0)) => (Executes(s.G) /\ GraphTerm(s.G) = RecipeTerm(G0, UMap))
\* the linear-time graph matching used for real traces says the same as term equality
MatchingIsTermEquality == Done => (MatchesRecipe(Compact(s.G), G0, UMap) <=> (GraphTerm(s.G) = RecipeTerm(G0, UMap)))
StepMatchesRun == Done => RunAlgo(StartState(G0, UMap)).G = s.G
=============================================================================
