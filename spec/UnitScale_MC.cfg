CONSTANTS K = 3  Legacy = {}
SPECIFICATION Spec
INVARIANT AlgoRefinesRecipe
INVARIANT MatchingIsTermEquality
