CONSTANTS MaxN = 4  Emit = FALSE  Legacy = {}
SPECIFICATION Spec
INVARIANT Bounds
INVARIANT Ordering
INVARIANT Symmetric
INVARIANT Homogeneous
INVARIANT EqualScales
INVARIANT Selection
INVARIANT SymOK
INVARIANT EmitTuple
