CONSTANTS Legacy = {}  Emit = TRUE
SPECIFICATION Spec
INVARIANT RoundTripOK
INVARIANT Idempotent
INVARIANT EmitF
